"""C20 — concurrent clients of one repository behave as if they ran one after another.

Model: Model/Conc.lean (atomic steps over committed database + files; removals are four steps: commit to the
trash, query, delete files, delete rows); theorems in Props/C20.lean (clear_commutes_*: a step that stays clear
of a removal commutes with each of its later steps; removal_serializable: any interleaving of a removal with
clear steps of other clients equals the schedule in which the removal runs uninterrupted; get-or-create,
one-winner and no-lost-chain-edit lemmas; the refutation witness reuse_race_loses_artifact for C20-a).
Tie: C — deterministic interleavings on a real SQLite repository with two or three Butler instances in one
process: client A's multi-step removal is paused at each of its internal boundaries (before the trash is
emptied; after the trash query; after the file deletions, before the row deletions) and the other clients'
operations run there; the same schedule is sent to the model.
Oracle (model-free): the outcomes and the final observable state (what every slot reads back as, files,
TAGGED memberships, chain, collections) of the interleaved run equal those of at least one sequential order of
the same operations, each executed on a fresh copy of the same repository.
"""
from __future__ import annotations

import contextlib
import hashlib
import itertools
import os
import shutil
import time

from vlib import core, repo

LEVEL = "proof"
LEAN_TARGETS = ["ButlerModel.Props.C20", "driver"]


def run(ctx):
    ctx.rule = (
        "client A: one of {pruneDatasets(purge) of x1, pruneDatasets(unstore) of x1, removeRuns(r2)}; clients B and C: 1-3 operations from "
        "{put into the slot being removed (same artifact path), put into another slot, associate, extend the chain, registerRun of one "
        "name by both, purge of another dataset}; schedules: every assignment of the B/C operations (in program order) to A's five "
        "boundaries {before, after the first commit, after the trash query, after the file deletions, after}; quick: a seeded sample; "
        "non-trivial = schedules with an operation at an inner boundary"
    )
    ctx.assumptions = [
        "SQLite: a write transaction holds the database lock from its first statement to its commit, so single-transaction operations "
        "(put, ingest, registrations, associate, chain edits) are atomic steps; interleavings inside a transaction (possible on PostgreSQL "
        "with row locks) are not executable here",
        "clients run in one process as separate Butler instances with separate connections; the schedule is imposed by callbacks, not by threads",
    ]
    with core.Lock():
        # T-tie: the decision Database.sync takes after its INSERT .. ON CONFLICT IGNORE and the query for the row (get-or-create,
        # conflict, update) is translated from the working tree into Gen/SyncPy.lean; C20.Translated.get_or_create /
        # conflict_never_silent / sync_table are proved about the translation
        import sys as _sys

        _sys.path.insert(0, os.path.join(core.VERIF, "translate"))
        try:
            import gen_sync

            gen_sync.generate(core.GEN_DIR)
        except Exception as e:
            ctx.broken.append(f"translation: Database.sync (decision): {type(e).__name__}: {e}")
        built = core.lean_build(ctx, LEAN_TARGETS)
        if built:
            core.lean_audit(ctx, ["ButlerModel.Props.C20"])
            if not ctx.quick():
                core.leanchecker(ctx, ["ButlerModel.Props.C20"])
    with repo.Scratch("verif-c20-") as tmp:
        schedules(ctx, built, tmp)


SLOTS = {("r1", 1): 1, ("r1", 2): 2, ("r2", 3): 3, ("r1", 4): 4, ("r1", 5): 5}
PRE = {"x1": (("r1", 1), 10), "x2": (("r1", 2), 11), "y3": (("r2", 3), 12)}


def build_template(tmp):
    from lsst.daf.butler import CollectionType, DatasetType

    root = os.path.join(tmp, "template")
    b = repo.make_butler(root, run="r1")
    b.registry.insertDimensionData("instrument", {"name": "I"})
    b.registry.insertDimensionData("detector", *[{"instrument": "I", "id": i, "full_name": f"d{i}"} for i in range(1, 9)])
    dt = DatasetType("dt", {"instrument", "detector"}, "StructuredDataDict", universe=b.dimensions)
    b.registry.registerDatasetType(dt)
    b.registry.registerRun("r2")
    b.registry.registerCollection("tg", CollectionType.TAGGED)
    b.registry.registerCollection("ch", CollectionType.CHAINED)
    b.registry.setCollectionChain("ch", ["r1"])
    ids = {}
    for name, ((run_, det), _) in PRE.items():
        ids[name] = b.put({"who": name}, dt, instrument="I", detector=det, run=run_).id
    del b
    return root, ids


def observe(root):
    """Canonical observable state through a fresh Butler (ids replaced by what the dataset reads back as)."""
    from lsst.daf.butler import Butler, CollectionType

    b = Butler.from_config(root)
    st = {"slots": {}, "files": {}, "tags": {}, "chain": None, "colls": sorted(b.registry.queryCollections()), "ids": {}}
    for c in st["colls"]:
        if b.registry.getCollectionType(c) is CollectionType.RUN:
            for ref in b.registry.queryDatasets("dt", collections=[c]):
                try:
                    val = repr(b.get(ref))
                except Exception as e:
                    val = f"unreadable:{type(e).__name__}"
                st["slots"][(c, ref.dataId["detector"])] = val
                st["ids"][(c, ref.dataId["detector"])] = ref.id
    if "tg" in st["colls"]:
        for ref in b.registry.queryDatasets("dt", collections=["tg"]):
            st["tags"][ref.dataId["detector"]] = st["slots"].get((ref.run, ref.dataId["detector"]))
    if "ch" in st["colls"]:
        st["chain"] = tuple(b.registry.getCollectionChain("ch"))
    for dp, _, fs in os.walk(root):
        for f in fs:
            if f.endswith(".yaml") and f != "butler.yaml":
                p = os.path.join(dp, f)
                st["files"][os.path.relpath(p, root)] = open(p).read().strip()
    ds = b._datastore
    st["records"] = sorted(str(r["path"]) for r in ds._table.fetch())
    return st


def canon(st):
    return (tuple(sorted(st["slots"].items())), tuple(sorted(st["files"].items())), tuple(sorted(st["tags"].items())), st["chain"],
            tuple(st["colls"]), tuple(st["records"]))


class Case:
    """One execution of a schedule on a fresh copy of the template."""

    def __init__(self, template, ids, tmp, tag):
        from lsst.daf.butler import Butler

        self.root = os.path.join(tmp, tag)
        shutil.rmtree(self.root, ignore_errors=True)
        shutil.copytree(template, self.root)
        self.ids = ids
        class Lazy(dict):
            def __missing__(d, c):
                d[c] = Butler.from_config(self.root, writeable=True, run="r1")
                return d[c]

        self.clients = Lazy()
        self.outcomes = []
        self.new_ids = {}
        self.late = []

    def ref(self, b, name):
        return b.get_dataset(self.ids[name])

    def do(self, who, op):
        b = self.clients[who]
        try:
            if op == "put-same":
                r = b.put({"who": f"{who}-same"}, "dt", instrument="I", detector=1, run="r1")
                self.new_ids[(who, op)] = r.id
            elif op == "put-other":
                r = b.put({"who": f"{who}-other"}, "dt", instrument="I", detector=4 if who == "B" else 5, run="r1")
                self.new_ids[(who, op)] = r.id
            elif op == "assoc-x2":
                b.registry.associate("tg", [self.ref(b, "x2")])
            elif op == "chain-r2":
                b.collections.extend_chain("ch", "r2")
            elif op == "reg-r3":
                b.registry.registerRun("r3")
            elif op == "purge-x2":
                b.pruneDatasets([self.ref(b, "x2")], purge=True, unstore=True, disassociate=True)
            elif op == "purge-x2-late":
                # B's own removal is paused after its first commit; it empties the trash only after A has finished
                real = b._datastore.emptyTrash
                b._datastore.emptyTrash = lambda *a, **k: None
                try:
                    b.pruneDatasets([self.ref(b, "x2")], purge=True, unstore=True, disassociate=True)
                finally:
                    del b._datastore.emptyTrash
                self.late.append(real)
            else:
                raise ValueError(op)
            out = "ok"
        except Exception as e:
            out = type(e).__name__
        self.outcomes.append((who, op, out))
        return out

    def run_a(self, a_op, at):
        """A's removal with the other clients' operations run at its boundaries: at = {k: [(who, op), ...]}."""
        A = self.clients["A"]
        ds = A._datastore
        orig_empty = ds.emptyTrash
        orig_bridge_empty = ds.bridge.emptyTrash
        case = self
        fired = set()

        def fire(k):
            if k in fired:
                return
            fired.add(k)
            for who, op in at.get(k, []):
                case.do(who, op)

        def empty_trash(*a, **kw):
            fire(1)
            return orig_empty(*a, **kw)

        @contextlib.contextmanager
        def bridge_empty(*a, **kw):
            with orig_bridge_empty(*a, **kw) as data:
                # materialise the query result: the real code iterates it lazily inside the block
                trashed, keep = data
                trashed = list(trashed)
                fire(2)
                yield (iter(trashed), keep)
                fire(3)

        ds.emptyTrash = empty_trash
        ds.bridge.emptyTrash = bridge_empty
        fire(0)
        try:
            if a_op == "purge-x1":
                A.pruneDatasets([self.ref(A, "x1")], purge=True, unstore=True, disassociate=True)
            elif a_op == "unstore-x1":
                A.pruneDatasets([self.ref(A, "x1")], unstore=True, disassociate=False, purge=False)
            else:
                A.removeRuns(["r2"], unstore=True)
            out = "ok"
        except Exception as e:
            out = type(e).__name__
        for k in (1, 2, 3):
            fire(k)  # boundaries the operation did not reach (it failed early): the others still run, afterwards
        self.outcomes.append(("A", a_op, out))
        for fn in self.late:
            fn()
        self.late.clear()
        fire(4)
        for fn in self.late:
            fn()
        self.late.clear()
        del ds.emptyTrash, ds.bridge.emptyTrash

    def close(self):
        self.clients.clear()


def schedules(ctx, model_ok, tmp):
    rng = ctx.rng
    template, ids = build_template(tmp)
    registration_races(ctx, tmp, template)
    begin_boundary_races(ctx, tmp, template, ids)
    thread_races(ctx, tmp, template)
    stale_type_cache(ctx, tmp, template)
    req, impl = [], []

    def viol(what, key, replay):
        ctx.violations.append(core.Violation(what=what, key=key, replay=replay))

    seq_cache = {}

    def sequential(a_op, others):
        """All sequential orders respecting each client's program order -> set of (outcomes-by-op, canonical state)."""
        key = (a_op, tuple(others))
        if key in seq_cache:
            return seq_cache[key]
        items = [("A", a_op)] + list(others)
        results = {}
        for perm in set(itertools.permutations(range(len(items)))):
            order = [items[i] for i in perm]
            # program order per client
            ok = all([x for x in order if x[0] == c] == [x for x in items if x[0] == c] for c in "ABC")
            if not ok:
                continue
            case = Case(template, ids, tmp, "seq")
            for who, op in order:
                if who == "A":
                    case.run_a(op, {})
                else:
                    case.do(who, op)
                    for fn in case.late:
                        fn()
                    case.late.clear()
            case.close()
            st = observe(case.root)
            results[(tuple(sorted(case.outcomes)), canon(st))] = [f"{w}:{o}" for w, o in order]
        seq_cache[key] = results
        return results

    a_ops = ["purge-x1", "purge-x1", "unstore-x1", "removeRuns-r2"]
    other_ops = ["put-same", "put-other", "assoc-x2", "chain-r2", "reg-r3", "purge-x2", "purge-x2-late"]
    corpus = [("purge-x1", [("B", "put-same")], {2: [("B", "put-same")]}),      # the recorded witness of C20-a
              ("purge-x1", [("B", "put-same")], {1: [("B", "put-same")]}),
              ("purge-x1", [("B", "purge-x2-late")], {2: [("B", "purge-x2-late")]}),
              ("purge-x1", [("B", "purge-x2-late")], {3: [("B", "purge-x2-late")]})]
    n_cases = 18 if ctx.quick() else 120
    for n in range(n_cases + len(corpus)):
        if n < len(corpus):
            a_op, others, at = corpus[n]
        else:
            a_op = rng.choice(a_ops)
            others = []
            for who in ("B", "C"):
                k = rng.choice([1, 1, 2]) if who == "B" else rng.choice([0, 0, 1])
                for op in rng.sample(other_ops, k):
                    if op.startswith("purge-x2") and any(o.startswith("purge-x2") for _, o in others):
                        continue
                    others.append((who, op))
            at = {}
            for who in ("B", "C"):
                ks = sorted(rng.choice([0, 1, 1, 2, 2, 2, 3, 3, 4]) for x in others if x[0] == who)
                for k_, x in zip(ks, [x for x in others if x[0] == who]):
                    at.setdefault(k_, []).append(x)
        case = Case(template, ids, tmp, "par")
        case.run_a(a_op, at)
        case.close()
        st = observe(case.root)
        got = (tuple(sorted(case.outcomes)), canon(st))
        seqs = sequential(a_op, others)
        ctx.evaluations += 1
        sched_text = f"A={a_op} " + " ".join(f"@{k}:" + ",".join(f"{w}.{o}" for w, o in v) for k, v in sorted(at.items()))
        ctx.count(a_op)
        if any(k in (1, 2, 3) for k in at):
            ctx.nontrivial.add(sched_text)
        ctx.sample({"schedule": sched_text, "outcomes": [list(x) for x in case.outcomes]}, cap=6)
        if got not in seqs:
            unreadable = [k for k, v in st["slots"].items() if v.startswith("unreadable")]
            reuse = a_op in ("purge-x1",) and any(op == "put-same" for k in (2,) for _, op in at.get(k, [])) and unreadable == [("r1", 1)]
            viol(f"schedule {sched_text}: outcomes {case.outcomes} and final state are produced by no sequential order of the same operations"
                 + (f"; dataset(s) at {unreadable} are visible but unreadable" if unreadable else "")
                 + f" (sequential orders give {len(seqs)} distinct results)",
                 "prune-reput-path-reuse-race" if reuse else f"c20:{sched_text}",
                 {"kind": "schedule", "a": a_op, "at": {str(k): v for k, v in at.items()}, "outcomes": case.outcomes, "unreadable": [list(x) for x in unreadable]})
        # ------------------------------------------------ model: purge-x1 schedules whose steps the model expresses
        if a_op == "purge-x1" and all(op in ("put-same", "put-other", "assoc-x2", "chain-r2", "reg-r3") for _, op in others):
            idn = {}

            def step(who, op):
                if op == "put-same":
                    return f"put:1@{20 if who == 'B' else 21}@101@{30 if who == 'B' else 31}"
                if op == "put-other":
                    s_ = 4 if who == "B" else 5
                    return f"put:{s_}@{22 if who == 'B' else 23}@{100 + s_}@{32 if who == 'B' else 33}"
                if op == "assoc-x2":
                    return "as:2@11"
                if op == "chain-r2":
                    return "ca:1@2"
                return "reg:3@0"

            steps = []
            for k in range(5):
                if k == 1:
                    steps.append("p1:1@10@101")
                if k == 2:
                    steps.append("p2q:10@101")
                if k == 3:
                    steps.append("p2d:10@101")
                if k == 4:
                    steps.append("p3:10")
                steps += [step(w, o) for w, o in at.get(k, [])]
            req.append("conc run sl:1@10 sl:2@11 sl:3@12 rc:10@101 rc:11@102 rc:12@103 fl:101@1 fl:102@2 fl:103@3 cl:1@0 cl:2@0 ch:1@1 S " + " ".join(steps))
            # the same projection from the observation
            content_no = {"{'who': 'x1'}": 1, "{'who': 'x2'}": 2, "{'who': 'y3'}": 3, "{'who': 'B-same'}": 30, "{'who': 'C-same'}": 31,
                          "{'who': 'B-other'}": 32, "{'who': 'C-other'}": 33}
            idno = {ids["x1"]: 10, ids["x2"]: 11, ids["y3"]: 12}
            for (w, o), u in case.new_ids.items():
                idno[u] = {("B", "put-same"): 20, ("C", "put-same"): 21, ("B", "put-other"): 22, ("C", "put-other"): 23}[(w, o)]
            slot_txt = ",".join(f"{SLOTS[k]}@{idno[u]}" for k, u in sorted(st["ids"].items(), key=lambda x: SLOTS[x[0]])) or "-"
            fl = {}
            for p, txt in st["files"].items():
                det = int(p.split("_d")[1].split("_")[0])
                run_ = p.split("/")[0]
                fl[100 + SLOTS[(run_, det)]] = content_no.get("{" + repr(txt.split(": ")[0])[0:0] + "'who': '" + txt.split(": ")[1] + "'}", 0)
            files_txt = ",".join(f"{k}@{v}" for k, v in sorted(fl.items())) or "-"
            recs = {}
            import sqlite3

            con = sqlite3.connect(os.path.join(case.root, "gen3.sqlite3"))
            for did, path in con.execute("SELECT dataset_id, path FROM file_datastore_records"):
                import uuid as _uuid

                u = _uuid.UUID(bytes=bytes(did)) if isinstance(did, (bytes, memoryview)) else _uuid.UUID(str(did))
                det = int(path.split("_d")[1].split("_")[0])
                recs[idno.get(u, 0)] = 100 + SLOTS[(path.split("/")[0], det)]
            trash = [idno.get(_uuid.UUID(bytes=bytes(r[0])) if isinstance(r[0], (bytes, memoryview)) else _uuid.UUID(str(r[0])), 0)
                     for r in con.execute("SELECT dataset_id FROM dataset_location_trash")]
            con.close()
            recs_txt = ",".join(f"{k}@{v}" for k, v in sorted(recs.items())) or "-"
            colls_txt = "1@0,2@0" + (",3@0" if "r3" in st["colls"] else "")
            tags_txt = "2@11" if 2 in st["tags"] else "-"
            chain_txt = "1:" + ",".join({"r1": "1", "r2": "2"}[c] for c in (st["chain"] or ()))
            has_reg = any(o == "reg-r3" for _, o in others)
            has_as = any(o == "assoc-x2" for _, o in others)
            impl.append(f"slots={slot_txt} recs={recs_txt} files={files_txt} trash={','.join(map(str, sorted(trash))) or '-'} "
                        f"colls={colls_txt} tags={tags_txt if has_as else '-'} chains={chain_txt}")
        shutil.rmtree(case.root, ignore_errors=True)
    if model_ok:
        got = core.driver(req)
        nd = 0
        for line, m, i in zip(req, got, impl):
            if m != i:
                nd += 1
                if nd <= 5:
                    ctx.broken.append(f"correspondence: `{line[100:260]}` model={m} implementation={i}")
        ctx.extra["correspondence_lines"] = len(req)
        ctx.extra["correspondence_disagreements"] = nd


def registration_races(ctx, tmp, template):
    """Races inside get-or-create registrations: client B's whole registration lands inside a window of client A's
    (between A's lookup and its insert-or-compare; between A's refresh and its table lock)."""
    from lsst.daf.butler import Butler, CollectionType, DatasetType

    def viol(what, key, replay):
        ctx.violations.append(core.Violation(what=what, key=key, replay=replay))

    def fresh(tag):
        root = os.path.join(tmp, tag)
        shutil.rmtree(root, ignore_errors=True)
        shutil.copytree(template, root)
        return root

    def observe_types(root):
        try:
            b = Butler.from_config(root)
            return (sorted((t.name, t.storageClass_name, tuple(sorted(t.dimensions.names))) for t in b.registry.queryDatasetTypes()),
                    sorted((c, b.registry.getCollectionType(c).name) for c in b.registry.queryCollections() if c.startswith("race_")))
        except Exception as e:
            return f"fresh client cannot list dataset types: {type(e).__name__}"

    def call(f):
        from lsst.daf.butler.registry import ConflictingDefinitionError

        try:
            return repr(f())
        except ConflictingDefinitionError:
            return "ConflictingDefinitionError"  # including its subclass DatabaseConflictError
        except Exception as e:
            return type(e).__name__

    scenarios = {
        # the same name with different storage classes: exactly one definition wins, the other registration is refused
        "conflicting-storage-class": (lambda b: b.registry.registerDatasetType(DatasetType("race", {"instrument", "detector"}, "StructuredDataDict", universe=b.dimensions)),
                                      lambda b: b.registry.registerDatasetType(DatasetType("race", {"instrument", "detector"}, "StructuredDataList", universe=b.dimensions)), "sync"),
        # two different dataset types that are the first of a new dimension set
        "new-dimension-group": (lambda b: b.registry.registerDatasetType(DatasetType("ga", {"instrument", "physical_filter"}, "StructuredDataDict", universe=b.dimensions)),
                                lambda b: b.registry.registerDatasetType(DatasetType("gb", {"instrument", "physical_filter"}, "StructuredDataDict", universe=b.dimensions)), "lock"),
        "new-dimension-group-at-sync": (lambda b: b.registry.registerDatasetType(DatasetType("ga", {"instrument", "physical_filter"}, "StructuredDataDict", universe=b.dimensions)),
                                        lambda b: b.registry.registerDatasetType(DatasetType("gb", {"instrument", "physical_filter"}, "StructuredDataDict", universe=b.dimensions)), "sync"),
        # ... both find the group's tables missing before either creates them (B's whole registration inside A's
        # "table is not there" -> CREATE TABLE window)
        "new-dimension-group-at-create-table": (
            lambda b: b.registry.registerDatasetType(DatasetType("ga", {"instrument", "physical_filter"}, "StructuredDataDict", universe=b.dimensions)),
            lambda b: b.registry.registerDatasetType(DatasetType("gb", {"instrument", "physical_filter"}, "StructuredDataDict", universe=b.dimensions)), "create-table"),
        "same-run": (lambda b: b.registry.registerRun("race_run"), lambda b: b.registry.registerRun("race_run"), "sync"),
        # one name, two collection types
        "same-name-other-type": (lambda b: b.registry.registerRun("race_coll"), lambda b: b.registry.registerCollection("race_coll", CollectionType.TAGGED), "sync"),
    }
    for name, (fa, fb, where) in scenarios.items():
        seq = set()
        for order in ("AB", "BA"):
            root = fresh("rseq")
            A, B = Butler.from_config(root, writeable=True), Butler.from_config(root, writeable=True)
            outs = {}
            for c in order:
                outs[c] = call(lambda: (fa(A) if c == "A" else fb(B)))
            del A, B
            seq.add((outs["A"], outs["B"], repr(observe_types(root))))
        root = fresh("rpar")
        A, B = Butler.from_config(root, writeable=True), Butler.from_config(root, writeable=True)
        db = A._registry._db
        fired = []
        out_b = []

        def run_b():
            if not fired:
                fired.append(1)
                out_b.append(call(lambda: fb(B)))

        if where == "create-table":
            orig_g = db.getExistingTable

            def getExistingTable(name_, spec_):
                t_ = orig_g(name_, spec_)
                if t_ is None:
                    run_b()
                return t_

            db.getExistingTable = getExistingTable
        elif where == "sync":
            orig = db.sync

            def sync(*a, **k):
                run_b()
                return orig(*a, **k)

            db.sync = sync
        else:
            orig_t = db.transaction

            def transaction(*a, **k):
                if k.get("lock"):
                    run_b()
                return orig_t(*a, **k)

            db.transaction = transaction
        out_a = call(lambda: fa(A))
        if not fired:
            out_b.append(call(lambda: fb(B)))
            ctx.count(f"race-window-not-reached:{name}")
        del A, B
        got = (out_a, out_b[0], repr(observe_types(root)))
        ctx.evaluations += 1
        ctx.count(f"race:{name}")
        ctx.nontrivial.add(("race", name))
        if got not in seq:
            win = {"sync": "lookup-to-insert", "lock": "refresh-to-lock", "create-table": "table-missing-to-CREATE-TABLE"}[where]
            viol(f"registration race {name} (B inside A's {win} window): outcomes A={out_a} B={out_b[0]}, "
                 f"afterwards {got[2][:160]}; sequential orders give {sorted(seq)}"[:900], f"c20:race:{name}", {"kind": "race", "scenario": name, "got": list(got)})
        shutil.rmtree(root, ignore_errors=True)


def stale_type_cache(ctx, tmp, template):
    """Client A has listed the dataset types (its cache is complete), client B registers a new one, A registers the same
    definition (get-or-create: False) — and can then use it like any other: look it up, put a dataset of it, which B reads."""
    from lsst.daf.butler import Butler, DatasetType

    root = os.path.join(tmp, "stale")
    shutil.rmtree(root, ignore_errors=True)
    shutil.copytree(template, root)
    A, B = Butler.from_config(root, writeable=True, run="r1"), Butler.from_config(root, writeable=True, run="r1")
    list(A.registry.queryDatasetTypes())
    A.get_dataset_type("dt")
    mk = lambda b: DatasetType("late_type", {"instrument", "detector"}, "StructuredDataDict", universe=b.dimensions)  # noqa: E731
    steps = []
    try:
        steps.append(("B.registerDatasetType", B.registry.registerDatasetType(mk(B))))
        steps.append(("A.registerDatasetType", A.registry.registerDatasetType(mk(A))))
        steps.append(("A.get_dataset_type", A.get_dataset_type("late_type").name))
        ref = A.put({"who": "A"}, "late_type", instrument="I", detector=5)
        steps.append(("A.put", "ok"))
        steps.append(("B.get", B.get(ref)))
        problem = None if steps[0][1] is True and steps[1][1] is False and steps[-1][1] == {"who": "A"} else f"outcomes {steps}"
    except Exception as e:
        problem = f"after {steps}: {type(e).__name__}: {str(e)[:100]}"
    ctx.evaluations += 1
    ctx.count("stale-dataset-type-cache")
    if problem:
        ctx.violations.append(core.Violation(
            what=f"client A (dataset types listed before) and client B's later registration of a new dataset type: {problem}; in sequential use A registers "
                 "(False), looks up, puts, and B reads", key="c20:stale-dataset-type-cache", replay={"kind": "stale-type-cache", "steps": [str(x) for x in steps]}))
    del A, B
    shutil.rmtree(root, ignore_errors=True)


def thread_races(ctx, tmp, template):
    """Two clients in two real threads (what the deterministic injections cannot do: one client *waiting* for the other).

    * lock wait: A holds a transaction open (put, pause) while B starts a put of another data ID; A then commits.  Both must
      succeed — B waits for the write lock from the start of its transaction.
    * failed block against a put into the same slot: A's block `put(slot); raise` is undone while B's put of the same dataset
      type, data ID and run waits; A's undo of its artifact is held until B is done or 2 s have passed.  Whatever the order, the
      dataset visible at the end must be readable with its writer's content."""
    import threading

    from lsst.daf.butler import Butler
    from lsst.daf.butler.datastore import DatastoreTransaction

    def viol(what, key, replay):
        ctx.violations.append(core.Violation(what=what, key=key, replay=replay))

    def fresh(tag):
        root = os.path.join(tmp, tag)
        shutil.rmtree(root, ignore_errors=True)
        shutil.copytree(template, root)
        return root

    class Boom(Exception):
        pass

    # ---- 1. lock wait
    for rep in range(2 if ctx.quick() else 4):
        root = fresh("t_lock")
        a_in, res = threading.Event(), {}

        def thread_a():
            try:
                A = Butler.from_config(root, writeable=True, run="r1")
                with A.transaction():
                    A.put({"who": "A"}, "dt", instrument="I", detector=7)
                    a_in.set()
                    time.sleep(0.4)
                res["A"] = "ok"
            except Exception as e:
                res["A"] = f"{type(e).__name__}: {str(e)[:80]}"
                a_in.set()

        def thread_b():
            try:
                B = Butler.from_config(root, writeable=True, run="r1")
                a_in.wait(20)
                B.put({"who": "B"}, "dt", instrument="I", detector=8)
                res["B"] = "ok"
            except Exception as e:
                res["B"] = f"{type(e).__name__}: {str(e)[:80]}"

        ta, tb = threading.Thread(target=thread_a), threading.Thread(target=thread_b)
        ta.start(), tb.start()
        ta.join(60), tb.join(60)
        ctx.evaluations += 1
        ctx.count("thread-race:lock-wait")
        ctx.nontrivial.add(("thread", "lock-wait"))
        if res.get("A") != "ok" or res.get("B") != "ok":
            viol(f"client B's put of another data ID, started while client A's transaction was open, and A's commit: A -> {res.get('A')}, B -> {res.get('B')}; "
                 "in either sequential order both succeed", "c20:thread:lock-wait", {"kind": "thread-race", "scenario": "lock-wait", "outcomes": res})
            break
        shutil.rmtree(root, ignore_errors=True)

    # ---- 2. a failed block and a put into the same slot
    orig_rollback = DatastoreTransaction.rollback
    for rep in range(2 if ctx.quick() else 3):
        root = fresh("t_slot")
        a_in, b_done, res = threading.Event(), threading.Event(), {}
        a_thread = []

        observed = []  # the order in which A's failed block is undone, as it happens

        def rollback(self, *a, **k):
            if a_thread and threading.get_ident() == a_thread[0]:
                observed.append("undo")
                b_done.wait(2.0)  # let the other client finish first if it can
            return orig_rollback(self, *a, **k)

        def thread_a2():
            a_thread.append(threading.get_ident())
            try:
                import sqlalchemy

                A = Butler.from_config(root, writeable=True, run="r1")
                sqlalchemy.event.listen(A._registry._db._engine, "rollback", lambda conn: observed.append("unlock"))
                with A.transaction():
                    A.put({"who": "A"}, "dt", instrument="I", detector=6)
                    a_in.set()
                    time.sleep(0.2)
                    raise Boom()
            except Boom:
                res["A"] = "block failed"
            except Exception as e:
                res["A"] = f"{type(e).__name__}: {str(e)[:80]}"
                a_in.set()

        def thread_b2():
            try:
                B = Butler.from_config(root, writeable=True, run="r1")
                a_in.wait(20)
                res["ref"] = B.put({"who": "B"}, "dt", instrument="I", detector=6)
                res["B"] = "ok"
            except Exception as e:
                res["B"] = f"{type(e).__name__}: {str(e)[:80]}"
            b_done.set()

        DatastoreTransaction.rollback = rollback
        try:
            ta, tb = threading.Thread(target=thread_a2), threading.Thread(target=thread_b2)
            ta.start(), tb.start()
            ta.join(60), tb.join(60)
        finally:
            DatastoreTransaction.rollback = orig_rollback
        ctx.evaluations += 1
        ctx.count("thread-race:failed-block-vs-put-same-slot")
        ctx.nontrivial.add(("thread", "same-slot"))
        problems = []
        if res.get("A") != "block failed":
            problems.append(f"A -> {res.get('A')}")
        fresh_b = Butler.from_config(root)
        found = fresh_b.find_dataset("dt", instrument="I", detector=6, collections="r1")
        if res.get("B") == "ok":
            if found is None:
                problems.append("B's put succeeded but its dataset is not registered")
            else:
                try:
                    got = fresh_b.get(found)
                    if got != {"who": "B"}:
                        problems.append(f"the dataset visible at the end reads back {got}, its writer B stored {{'who': 'B'}}")
                except Exception as e:
                    problems.append(f"the dataset B stored is visible at the end but cannot be read ({type(e).__name__})")
        elif found is not None:
            problems.append(f"B -> {res.get('B')} but a dataset is registered in the slot")
        # the model (Model/Lock.lean): its order of the two undo steps is the one observed, and it predicts the outcome
        first = [x for i_, x in enumerate(observed) if x not in observed[:i_]]
        model_order, = core.driver(["conc lock order"])
        if ",".join(first) != model_order:
            ctx.broken.append(f"correspondence: a failed Butler.transaction() block was undone in the order {first}, the model (Lock.sourceOrder) has {model_order}")
        elif found is not None and res.get("B") == "ok":
            try:
                readable = fresh_b.get(found) == {"who": "B"}
            except Exception:
                readable = False
            want_m, = core.driver([f"conc lock {model_order} 1"])
            got_m = f"row=B file={'B' if readable else '-'}"
            if want_m != got_m:
                ctx.broken.append(f"correspondence: `conc lock {model_order} 1` model={want_m} implementation={got_m}")
        if problems:
            viol("client A's block `put(slot); raise` undone while client B puts into the same slot (A's undo held until B is done or 2 s have passed): "
                 + "; ".join(problems), "c20:thread:failed-block-vs-put", {"kind": "thread-race", "scenario": "failed-block-vs-put-same-slot", "problems": problems})
            break
        del fresh_b
        shutil.rmtree(root, ignore_errors=True)


def begin_boundary_races(ctx, tmp, template, ids):
    """Registry-level operations of two clients on the same objects, with client B's whole operation injected before every
    database transaction client A's operation starts (every BEGIN its connection issues — A holds no lock there).  This
    enumerates all interleavings at transaction granularity, whatever number of transactions an operation turns out to use;
    each outcome (who succeeded, final state) must be one that a sequential order gives.  It is also what checks the
    assumption that chain edits, associations and registrations are single atomic steps."""
    import sqlalchemy
    from lsst.daf.butler import Butler
    from lsst.daf.butler.registry import ConflictingDefinitionError

    rng = ctx.rng

    def viol(what, key, replay):
        ctx.violations.append(core.Violation(what=what, key=key, replay=replay))

    classes = {}

    def call(op, b, R):
        # outcomes are compared as accepted / refused (which exception class a refusal uses depends on where the conflict is
        # noticed and is recorded only for the report)
        try:
            op(b, R)
            return "ok"
        except Exception as e:
            classes[type(e).__name__] = classes.get(type(e).__name__, 0) + 1
            return "refused"

    def resolve(b):
        """the refs the operations name, looked up before the operation under test starts"""
        return {"x1": b.get_dataset(ids["x1"]), "x2": b.get_dataset(ids["x2"]), "z1": b.find_dataset("dt", instrument="I", detector=1, collections="r2")}

    OPS = {
        "extend(ch,r2)": lambda b, R: b.collections.extend_chain("ch", ["r2"]),
        "prepend(ch,r2)": lambda b, R: b.collections.prepend_chain("ch", ["r2"]),
        "prepend(ch,r3)": lambda b, R: b.collections.prepend_chain("ch", ["r3"]),
        "extend(ch,r1)": lambda b, R: b.collections.extend_chain("ch", ["r1"]),   # moves r1 to the end
        "remove(ch,r1)": lambda b, R: b.collections.remove_from_chain("ch", ["r1"]),
        "redefine(ch,[r3,r2])": lambda b, R: b.collections.redefine_chain("ch", ["r3", "r2"]),
        "assoc(tg,x1)": lambda b, R: b.registry.associate("tg", [R["x1"]]),
        "assoc(tg,z1)": lambda b, R: b.registry.associate("tg", [R["z1"]]),
        "assoc(tg,x2)": lambda b, R: b.registry.associate("tg", [R["x2"]]),
        "disassoc(tg,x1)": lambda b, R: b.registry.disassociate("tg", [R["x1"]]),
        "purge(x1)": lambda b, R: b.pruneDatasets([R["x1"]], purge=True, unstore=True, disassociate=True),
        "removeRuns(r2)": lambda b, R: b.removeRuns(["r2"], unstore=True),
        "registerRun(r4)": lambda b, R: b.registry.registerRun("r4"),
        "put(r2,2)": lambda b, R: b.put({"who": "late"}, "dt", instrument="I", detector=2, run="r2"),
    }
    chain_ops = ["extend(ch,r2)", "prepend(ch,r2)", "prepend(ch,r3)", "extend(ch,r1)", "remove(ch,r1)", "redefine(ch,[r3,r2])"]
    always = [("prepend(ch,r3)", "prepend(ch,r2)"), ("redefine(ch,[r3,r2])", "extend(ch,r2)"), ("extend(ch,r1)", "extend(ch,r2)"), ("remove(ch,r1)", "prepend(ch,r3)"),
              ("assoc(tg,x1)", "assoc(tg,z1)"), ("assoc(tg,z1)", "assoc(tg,x1)"), ("assoc(tg,x1)", "purge(x1)"), ("removeRuns(r2)", "extend(ch,r2)"),
              ("removeRuns(r2)", "put(r2,2)")]
    others = [(a, b_) for a in OPS for b_ in OPS if a != b_ and (a, b_) not in always]
    rng.shuffle(others)
    pairs = always + (others[:6] if ctx.quick() else others)

    def fresh(tag):
        root = os.path.join(tmp, tag)
        shutil.rmtree(root, ignore_errors=True)
        shutil.copytree(template, root)
        admin = Butler.from_config(root, writeable=True, run="r1")
        admin.registry.registerRun("r3")
        admin.collections.redefine_chain("ch", ["r1", "r3"])
        admin.put({"who": "z1"}, "dt", instrument="I", detector=1, run="r2")
        del admin
        return root

    def settle(root):
        """what the next client's trash emptying makes of the repository (a dataset left half removed shows up here)"""
        c_ = Butler.from_config(root, writeable=True)
        try:
            c_._datastore.emptyTrash()
        finally:
            del c_

    txn_counts = {}
    for a_name, b_name in pairs:
        op_a, op_b = OPS[a_name], OPS[b_name]
        serial = {}
        for order in ("AB", "BA"):
            root = fresh("bseq")
            A, B = Butler.from_config(root, writeable=True, run="r1"), Butler.from_config(root, writeable=True, run="r1")
            outs = {}
            RA, RB = resolve(A), resolve(B)
            for c in order:
                outs[c] = call(op_a, A, RA) if c == "A" else call(op_b, B, RB)
            del A, B
            settle(root)
            serial[(outs["A"], outs["B"], canon(observe(root)))] = order
            if {a_name, b_name} == {"assoc(tg,x1)", "assoc(tg,z1)"} and sorted(outs.values()) != ["ok", "refused"]:
                # two datasets of one dataset type and data ID cannot both be members of a TAGGED collection: whichever comes second is refused
                viol(f"{a_name} and {b_name} in the order {order}: outcomes {outs}; exactly one of two conflicting associations can be accepted",
                     f"c20:conflicting-assoc:{order}", {"kind": "begin-boundary", "A": a_name, "B": b_name, "order": order})
        # an operation that is refused and leaves no trace counts as not having happened (an aborted transaction): the other
        # operation alone is then the sequential order that explains the outcome
        for who, op_, name_ in (("A", op_a, a_name), ("B", op_b, b_name)):
            root = fresh("bseq")
            C = Butler.from_config(root, writeable=True, run="r1")
            out_ = call(op_, C, resolve(C))
            del C
            settle(root)
            key_ = (out_, "refused", canon(observe(root))) if who == "A" else ("refused", out_, canon(observe(root)))
            serial.setdefault(key_, f"{who} alone")
        for k in range(1, 40):
            root = fresh("bpar")
            A, B = Butler.from_config(root, writeable=True, run="r1"), Butler.from_config(root, writeable=True, run="r1")
            # let both clients load what they cache at start-up, so that A's operation begins with its own statements
            A.registry.refresh(), B.registry.refresh()
            RA, RB = resolve(A), resolve(B)
            state = {"count": 0, "fired": False, "res_b": None, "active": True}

            def before_execute(conn, cursor, statement, parameters, context, executemany, state=state, B=B, op_b=op_b, k=k, RB=RB):
                if not state["active"] or not statement.lstrip().upper().startswith("BEGIN"):
                    return
                n = state["count"]
                state["count"] += 1
                if n == k:
                    state["active"] = False
                    state["fired"] = True
                    state["res_b"] = call(op_b, B, RB)
                    state["active"] = True

            engine = A._registry._db._engine
            sqlalchemy.event.listen(engine, "before_cursor_execute", before_execute)
            try:
                ra = call(op_a, A, RA)
            finally:
                state["active"] = False
                sqlalchemy.event.remove(engine, "before_cursor_execute", before_execute)
            txn_counts[a_name] = max(txn_counts.get(a_name, 0), state["count"])
            if not state["fired"]:
                del A, B
                break  # A starts no more than k transactions: every boundary has been used
            del A, B
            settle(root)
            got = (ra, state["res_b"], canon(observe(root)))
            ctx.evaluations += 1
            ctx.count("begin-boundary-interleavings")
            ctx.nontrivial.add(("begin", a_name, b_name, k))
            if got not in serial:
                st = observe(root)
                viol(f"A={a_name} with B={b_name} injected before A's transaction #{k}: outcomes A={ra} B={state['res_b']}, chain {st['chain']}, tags {st['tags']}, "
                     f"slots {sorted(st['slots'].items())}; no sequential order gives this (A;B and B;A give outcomes {sorted((x[0], x[1]) for x in serial)})"[:900],
                     f"c20:begin:{a_name}:{b_name}:{k}", {"kind": "begin-boundary", "A": a_name, "B": b_name, "transaction": k})
        ctx.count("begin-boundary-pairs")
    ctx.extra["transactions_per_operation"] = txn_counts
    ctx.extra["refusal_classes_seen"] = classes
    for tag in ("bseq", "bpar"):
        shutil.rmtree(os.path.join(tmp, tag), ignore_errors=True)


def replay(ctx, content):
    print("replay:", content.get("what"))
    print({k: content.get(k) for k in ("a", "at", "outcomes", "unreadable")})
    run(ctx)
    return core.finish(ctx)
