"""C17 — caches never change an answer and stay within their configured bounds.

(a) File cache: Model/Cache.lean (CacheRegistry bookkeeping, move_to_cache / remove_from_cache /
    scan_cache / _expire_cache in the four modes, clock as a parameter); theorems in Props/C17.lean.
    Tie: C — seeded operation sequences on two real DatastoreCacheManager instances sharing one
    directory, under a fake clock and fake file ctimes; registry keys, tracked size and the directory
    listing are compared with the model after every operation.  Oracle: the bound formulas.
(b) Registry caches: a client working inside `registry.caching_context()` must get the same answers
    as an uncached client looking at the same repository at the same moment (model-free twin oracle).
"""
from __future__ import annotations

import contextlib
import datetime
import shutil
import os
import shutil
import types

from vlib import core, repo

LEVEL = "proof"
LEAN_TARGETS = ["ButlerModel.Props.C17", "driver"]


def run(ctx):
    ctx.rule = (
        "(a) seeded sequences of 12-30 cache operations (move_to_cache of new / already cached files, remove_from_cache, "
        "external deletion, find_in_cache, known_to_cache) by two managers sharing one directory, for each expiry mode "
        "(files, datasets, size, age) and thresholds incl. 0, sizes around file sizes and ages across the one-day wrap; "
        "(b) seeded histories of put / associate / prune interleaved with find/query probes inside a caching context vs "
        "an uncached second client; non-trivial = distinct sequences in which at least one entry was expired"
    )
    ctx.assumptions = [
        "two *processes* racing on one cache directory at syscall granularity are not exhibited (whole operations interleave)",
        "file creation times are injected (os.stat patched inside cache_manager) so that the clock can be controlled",
    ]
    with core.Lock():
        # T-tie: the files / size / age branches of DatastoreCacheManager._expire_cache are translated from the working tree into
        # Gen/CachePy.lean; C17.Translated.expire_*_eq identify them with the model the bound theorems are about
        import sys as _sys

        _sys.path.insert(0, os.path.join(core.VERIF, "translate"))
        try:
            import gen_cache

            gen_cache.generate(core.GEN_DIR)
        except Exception as e:  # Untranslatable or anything else: the tie is broken, the searches below still run
            ctx.broken.append(f"translation: DatastoreCacheManager._expire_cache: {type(e).__name__}: {e}")
        # T-tie: `_CacheToggle.enable` (entry, finally block, what follows the try) translated into Gen/TogglePy.lean;
        # C17.Toggle.all_left_cache_off / run_inv are proved about the translation
        try:
            import gen_toggle

            gen_toggle.generate(core.GEN_DIR)
        except Exception as e:
            ctx.broken.append(f"translation: _CacheToggle.enable: {type(e).__name__}: {e}")
        built = core.lean_build(ctx, LEAN_TARGETS)
        if built:
            core.lean_audit(ctx, ["ButlerModel.Props.C17"])
            if not ctx.quick():
                core.leanchecker(ctx, ["ButlerModel.Props.C17"])
    with repo.Scratch("verif-c17-") as tmp:
        file_cache(ctx, built, tmp)
        registry_caches(ctx, tmp)
        dataset_type_cache(ctx, tmp)
        summary_cache(ctx, built, tmp)
        dimension_record_cache(ctx, tmp)
        trust_unstore_cached(ctx, tmp)
        after_contexts(ctx, tmp)
        cloned_clients(ctx, tmp)
    toggle_direct(ctx)


# ------------------------------------------------------------------ (a) file cache
def file_cache(ctx, model_ok, tmp):
    from lsst.daf.butler import DataCoordinate, DatasetRef, DatasetType, DimensionUniverse
    from lsst.daf.butler.datastore import cache_manager as cm
    from lsst.daf.butler.datastore.cache_manager import DatastoreCacheManager, DatastoreCacheManagerConfig
    from lsst.resources import ResourcePath

    rng = ctx.rng
    u = DimensionUniverse()
    dt = DatasetType("dt", u.conform(["instrument"]), "StructuredDataDict")
    saved_env = os.environ.pop("DAF_BUTLER_CACHE_DIRECTORY", None)  # would override the per-sequence root
    real_os, real_dt = cm.os, cm.datetime
    ctimes: dict[str, int] = {}

    class FakeDT(datetime.datetime):
        now_value = None

        @classmethod
        def now(cls, tz=None):
            return cls.now_value

    class FakeOS:
        def __getattr__(self, n):
            return getattr(real_os, n)

        def stat(self, p, *a, **k):
            st = real_os.stat(p, *a, **k)
            if "/cache" in p and real_os.path.isfile(p):
                # a file's fake creation time is fixed the first time this very file (path+inode+mtime) is seen
                ident = (p, st.st_ino, st.st_mtime_ns)
                if ident not in ctimes:
                    ctimes[ident] = clock["now"]
                return types.SimpleNamespace(st_size=st.st_size, st_ctime=ctimes[ident], st_mode=st.st_mode)
            return st

    clock = {"now": 0}
    cm.datetime = types.SimpleNamespace(datetime=FakeDT, UTC=datetime.UTC, timedelta=datetime.timedelta)
    cm.os = FakeOS()
    req, impl = [], []

    def viol(what, key, replay):
        ctx.violations.append(core.Violation(what=what, key=key, replay=replay))

    try:
        n_seq = 24 if ctx.quick() else 400
        for s in range(n_seq):
            mode = ["files", "datasets", "size", "age"][s % 4]
            # thresholds are cycled, not drawn, so that every tier covers the boundary values (0 first)
            grid = {"files": [0, 1, 2, 3, 5], "datasets": [0, 1, 2, 3], "size": [0, 15, 40, 100, 250], "age": [0, 60, 3600, 90000]}[mode]
            thr = grid[(s // 4) % len(grid)]
            root = os.path.join(tmp, f"cache{s}")
            cfg = DatastoreCacheManagerConfig(
                {"cached": {"root": root, "expiry": {"mode": mode, "threshold": thr}, "default": True, "cacheable": {"irrelevant": False}}}
            )
            mgrs = [DatastoreCacheManager(cfg, universe=u), DatastoreCacheManager(cfg, universe=u)]
            refs = [DatasetRef(dt, DataCoordinate.standardize(instrument=f"I{i}", universe=u), run="r") for i in range(6)]
            EXT = [".yaml", ".json"]
            files = {}  # (ref index, ext index) -> key number
            keyname = {}  # cache file basename -> key number
            disk = {}  # key -> (ref, size, ctime)   harness's own view
            now = 1_000_000
            req.append(f"cache new {mode} {thr}")
            impl.append("ok")
            ops = []
            expired_any = False

            def observe(c):
                m = mgrs[c]
                keys = sorted(keyname[k] for k in m._cache_entries.keys())
                listing = sorted(keyname[f] for f in real_os.listdir(root) if f in keyname) if real_os.path.isdir(root) else []
                return (f"size={m.cache_size} entries=" + (",".join(map(str, keys)) or "-") + " disk=" + (",".join(map(str, listing)) or "-"),
                        keys, listing)

            for step in range(rng.randint(12, 30)):
                r = rng.random()
                c = rng.choice([0, 0, 0, 1])
                now += rng.choice([1, 5, 30, 100, 4000, 50000, 90000])
                clock["now"] = now
                FakeDT.now_value = datetime.datetime.fromtimestamp(now, datetime.UTC)
                if r < 0.6:
                    ri, ei = rng.randrange(len(refs)), rng.randrange(2)
                    if (ri, ei) not in files:
                        files[(ri, ei)] = len(files) + 1
                    k = files[(ri, ei)]
                    size = rng.choice([5, 10, 20, 50, 120])
                    src = os.path.join(tmp, f"src_{s}_{step}{EXT[ei]}")
                    with open(src, "w") as f:
                        f.write("x" * size)
                    loc = mgrs[c]._construct_cache_name(refs[ri], EXT[ei])
                    keyname[loc.basename()] = k
                    before = set(disk)
                    out = mgrs[c].move_to_cache(ResourcePath(src), refs[ri])
                    if real_os.path.exists(src):
                        real_os.remove(src)  # not moved (already cached)
                    ops.append(("move", c, now, k, ri, size))
                    # the model needs the entry as it will be on disk if moved: size/ctime of the *new* file
                    req.append(f"cache move {c} {now} {k} {ri} {size} {now}")
                    text, keys, listing = observe(c)
                    impl.append(text)
                    # harness view of the disk from the listing
                    # ---- oracle: bounds with the documented one-entry slack, bookkeeping = disk
                    m = mgrs[c]
                    ents = list(m._cache_entries.values())
                    if keys != listing:
                        viol(f"[{mode}={thr}] after {ops[-1]}: registry keys {keys} != files on disk {listing}", f"bookkeeping:{mode}:{thr}:{ops}",
                             {"kind": "cache", "mode": mode, "thr": thr, "ops": ops})
                    if m.cache_size != sum(e.size for e in ents):
                        viol(f"[{mode}={thr}] after {ops[-1]}: tracked size {m.cache_size} != sum of entry sizes {sum(e.size for e in ents)}",
                             f"size-bookkeeping:{mode}:{thr}:{ops}", {"kind": "cache", "mode": mode, "thr": thr, "ops": ops})
                    others = [e for e in ents if keyname[e.name] != k]
                    bad = None
                    if mode == "files" and len(others) > max(thr, 0):
                        bad = f"{len(others)} files besides the new one, threshold {thr}"
                    if mode == "datasets" and len({e.ref for e in others}) > max(thr, 0) and len({e.ref for e in ents}) > thr + 1:
                        bad = f"{len({e.ref for e in ents})} datasets cached, threshold {thr} (+1 slack)"
                    if mode == "size" and sum(e.size for e in others) > thr and others:
                        bad = f"{sum(e.size for e in others)} bytes besides the new entry, threshold {thr}"
                    if mode == "age":
                        old = [keyname[e.name] for e in others if now - int(e.ctime.timestamp()) > thr]
                        if old:
                            ages = [now - int(e.ctime.timestamp()) for e in others if now - int(e.ctime.timestamp()) > thr]
                            bad = f"entries {old} are older ({ages} s) than the age threshold {thr} s"
                            beyond_day = any(a >= 86400 for a in ages)
                    if bad:
                        key = f"bound:{mode}:{thr}:{ops}"
                        if mode == "age" and beyond_day:
                            key = "age-expiry-ignores-whole-days"
                        viol(f"[{mode}={thr}] after {ops[-1]}: {bad}", key, {"kind": "cache", "mode": mode, "thr": thr, "ops": ops})
                    if len(keys) < len(before | {k}):
                        expired_any = True
                    disk = {kk: None for kk in listing}
                elif r < 0.75:
                    sel = sorted(rng.sample(range(len(refs)), rng.choice([1, 2])))
                    mgrs[c].remove_from_cache([refs[i] for i in sel])
                    ops.append(("remove", c, sel))
                    req.append(f"cache remove {c} " + ",".join(map(str, sel)))
                    text, keys, listing = observe(c)
                    impl.append(text)
                    for e in mgrs[c]._cache_entries.values():
                        if refs.index(next(rf for rf in refs if rf.id == e.ref)) in sel:
                            viol(f"[{mode}={thr}] remove_from_cache({sel}) left {keyname[e.name]} in the registry", f"remove:{mode}:{ops}",
                                 {"kind": "cache", "mode": mode, "thr": thr, "ops": ops})
                    disk = {kk: None for kk in listing}
                elif r < 0.85 and disk:
                    k = rng.choice(sorted(disk))
                    name = next(n for n, kk in keyname.items() if kk == k)
                    real_os.remove(os.path.join(root, name))
                    disk.pop(k)
                    ops.append(("extrm", k))
                    req.append(f"cache extrm {k}")
                    impl.append("ok")
                else:
                    # reads: a hit must deliver the cached bytes through a path that survives, a miss is None
                    ri, ei = rng.randrange(len(refs)), rng.randrange(2)
                    loc = mgrs[c]._construct_cache_name(refs[ri], EXT[ei])
                    on_disk = real_os.path.exists(loc.ospath)
                    with mgrs[c].find_in_cache(refs[ri], EXT[ei]) as p:
                        got = None if p is None else real_os.path.exists(p.ospath)
                    ops.append(("find", c, ri, ei))
                    if (got is None) == on_disk or got is False:
                        viol(f"[{mode}={thr}] find_in_cache(ref {ri}{EXT[ei]}) = {got} but file on disk = {on_disk}", f"find:{mode}:{ops}",
                             {"kind": "cache", "mode": mode, "thr": thr, "ops": ops})
                ctx.evaluations += 1
            ctx.count(mode)
            if expired_any:
                ctx.nontrivial.add(repr((mode, thr, ops)))
            ctx.sample({"mode": mode, "threshold": thr, "ops": ops[:8]}, cap=4)
    finally:
        cm.os, cm.datetime = real_os, real_dt
        if saved_env is not None:
            os.environ["DAF_BUTLER_CACHE_DIRECTORY"] = saved_env

    if model_ok:
        got = core.driver(req)
        nd = 0
        for line, m, i in zip(req, got, impl):
            if m != i:
                nd += 1
                if nd <= 5:
                    ctx.broken.append(f"correspondence: `{line}` model={m} implementation={i}")
        ctx.extra["correspondence_lines"] = len(req)
        ctx.extra["correspondence_disagreements"] = nd
    else:
        ctx.notes.append("model not built: correspondence skipped, implementation searched with the bound oracle only")


# ------------------------------------------------------------------ (b) registry caches
def registry_caches(ctx, tmp):
    from lsst.daf.butler import Butler, CollectionType, DatasetType

    rng = ctx.rng
    root = os.path.join(tmp, "r")
    a = repo.make_butler(root)
    repo.basic_dimensions(a, detectors=(1, 2, 3))
    dts = [DatasetType(f"dt{i}", {"instrument", "detector"}, "StructuredDataDict", universe=a.dimensions) for i in range(2)]
    for d in dts:
        a.registry.registerDatasetType(d)
    b = Butler.from_config(root, writeable=False)  # the uncached observer
    n_hist = 10 if ctx.quick() else 150

    def viol(what, key, replay):
        ctx.violations.append(core.Violation(what=what, key=key, replay=replay))

    def probes(bt, colls):
        out = {}
        for d in dts:
            for k in (1, 2, 3):
                r1 = bt.registry.findDataset(d, instrument="I", detector=k, collections=colls)
                r2 = bt.find_dataset(d, instrument="I", detector=k, collections=colls)
                out[("findDataset", d.name, k)] = None if r1 is None else r1.id
                out[("find_dataset", d.name, k)] = None if r2 is None else r2.id
            try:
                out[("queryDatasets", d.name)] = sorted(str(r.id) for r in bt.registry.queryDatasets(d, collections=colls))
            except Exception as e:
                out[("queryDatasets", d.name)] = type(e).__name__
            try:
                out[("query_datasets", d.name)] = sorted(str(r.id) for r in bt.query_datasets(d, collections=colls, explain=False))
            except Exception as e:
                out[("query_datasets", d.name)] = type(e).__name__
        out[("collections",)] = sorted(bt.registry.queryCollections())
        for c in colls:
            try:
                out[("flatten", c)] = list(bt.registry.queryCollections(c, flattenChains=True))
            except Exception as e:
                out[("flatten", c)] = type(e).__name__
        return out

    for h in range(n_hist):
        runs = [f"run{h}_{i}" for i in range(2)]
        tag = f"tag{h}"
        chain = f"chain{h}"
        for r in runs:
            a.registry.registerRun(r)
        a.registry.registerCollection(tag, CollectionType.TAGGED)
        a.registry.registerCollection(chain, CollectionType.CHAINED)
        a.registry.setCollectionChain(chain, [tag] + runs)
        colls_choices = [[runs[0]], runs, [tag], [chain], [chain], [chain, runs[1]]]
        ops = []
        live = []
        with a.registry.caching_context():
            for step in range(rng.randint(4, 9)):
                # probe first so that the caches are filled before the next write
                colls = rng.choice(colls_choices)
                pa, pb = probes(a, colls), probes(b, colls)
                ctx.evaluations += 1
                if pa != pb:
                    diff = [k for k in pa if pa[k] != pb.get(k)]
                    stale_own_write = bool(ops) and ops[-1][0] in ("put", "associate")
                    viol(f"inside a caching context, after {ops[-3:]}: probes over {colls} differ from an uncached client for {diff[:3]} "
                         f"(cached={pa[diff[0]]}, uncached={pb[diff[0]]})",
                         "summary-cache-hides-own-write" if stale_own_write else f"cache-transparency:{ops}:{colls}",
                         {"kind": "regcache", "ops": ops, "collections": colls, "differs": [str(k) for k in diff]})
                    break
                r = rng.random()
                if (r < 0.5 or not live) and r < 0.9:
                    d, k, rn = rng.choice(dts), rng.choice((1, 2, 3)), rng.choice(runs)
                    try:
                        ref = a.put({"v": step}, d, instrument="I", detector=k, run=rn)
                        live.append(ref)
                        ops.append(("put", d.name, k, rn))
                    except Exception as e:
                        ops.append(("put-refused", d.name, k, rn, type(e).__name__))
                elif r < 0.75 and live:
                    ref = rng.choice(live)
                    try:
                        a.registry.associate(tag, [ref])
                        ops.append(("associate", ref.datasetType.name, ref.dataId["detector"]))
                    except Exception as e:
                        ops.append(("associate-refused", type(e).__name__))
                elif r < 0.88 and live:
                    ref = live.pop(rng.randrange(len(live)))
                    a.pruneDatasets([ref], disassociate=True, unstore=True, purge=True)
                    ops.append(("purge", ref.datasetType.name, ref.dataId["detector"], ref.run))
                else:
                    # the client redefines the chain it has been reading through (allowed inside a caching context)
                    members = [tag] + runs
                    rng.shuffle(members)
                    members = members[: rng.randint(0, len(members))]
                    a.registry.setCollectionChain(chain, members)
                    ops.append(("setCollectionChain", [m.split("_")[0] for m in members]))
            else:
                colls = rng.choice(colls_choices)
                pa, pb = probes(a, colls), probes(b, colls)
                if pa != pb:
                    diff = [k for k in pa if pa[k] != pb.get(k)]
                    stale_own_write = bool(ops) and ops[-1][0] in ("put", "associate")
                    viol(f"inside a caching context, after {ops[-3:]}: probes over {colls} differ from an uncached client for {diff[:3]}",
                         "summary-cache-hides-own-write" if stale_own_write else f"cache-transparency:{ops}:{colls}",
                         {"kind": "regcache", "ops": ops, "collections": colls, "differs": [str(k) for k in diff]})
        ctx.count("regcache-history")
        ctx.nontrivial.add(repr(ops))
        ctx.sample({"registry-cache-history": ops}, cap=6)


# ------------------------------------------------------------------ (c) dataset-type cache: warm-up order must not matter
def dataset_type_cache(ctx, tmp):
    """Whatever a client did first (which fills the per-name and per-dimensions dataset type caches in different
    orders), the same battery of queries must give the same answers as on a client that loaded everything at once."""
    from lsst.daf.butler import Butler, CollectionType, DatasetType, Timespan

    rng = ctx.rng
    root = os.path.join(tmp, "t")
    a = repo.make_butler(root, run="r1")
    repo.basic_dimensions(a, detectors=(1, 2))
    types = {
        "plain": DatasetType("w_plain", {"instrument", "detector"}, "StructuredDataDict", universe=a.dimensions),
        "calib": DatasetType("w_calib", {"instrument", "detector"}, "StructuredDataDict", universe=a.dimensions, isCalibration=True),
        "other": DatasetType("w_other", {"instrument"}, "StructuredDataDict", universe=a.dimensions),
        "calib2": DatasetType("w_calib2", {"instrument"}, "StructuredDataDict", universe=a.dimensions, isCalibration=True),
    }
    refs = {}
    a.registry.registerCollection("wcal", CollectionType.CALIBRATION)
    # register the non-calibration type of each dimension group first, as most repositories do
    for k in ("plain", "calib", "other", "calib2"):
        a.registry.registerDatasetType(types[k])
    for k, t in types.items():
        did = {"instrument": "I", "detector": 1} if "detector" in t.dimensions.names else {"instrument": "I"}
        refs[k] = a.put({"k": k}, t, did)
    a.registry.certify("wcal", [refs["calib"], refs["calib2"]], Timespan(None, None))

    def viol(what, key, replay):
        ctx.violations.append(core.Violation(what=what, key=key, replay=replay))

    def battery(bt):
        out = {}
        for k, t in types.items():
            for colls in (["r1"], ["wcal"], ["wcal", "r1"]):
                for api in ("query_datasets", "queryDatasets", "find"):
                    try:
                        if api == "query_datasets":
                            v = sorted(str(r.id) for r in bt.query_datasets(t.name, collections=colls, find_first=False, explain=False))
                        elif api == "queryDatasets":
                            v = sorted(str(r.id) for r in bt.registry.queryDatasets(t.name, collections=colls))
                        else:
                            did = {"instrument": "I", "detector": 1} if "detector" in t.dimensions.names else {"instrument": "I"}
                            r = bt.find_dataset(t.name, did, collections=colls, timespan=Timespan(None, None))
                            v = None if r is None else str(r.id)
                    except Exception as e:
                        v = f"{type(e).__name__}"
                    out[(k, tuple(colls), api)] = v
        return out

    ref_client = Butler.from_config(root)
    list(ref_client.registry.queryDatasetTypes())  # loads every dataset type at once
    want = battery(ref_client)
    warm = {
        "getDataset": lambda bt, k: bt.registry.getDataset(refs[k].id),
        "get_dataset": lambda bt, k: bt.get_dataset(refs[k].id),
        "get_dataset_type": lambda bt, k: bt.get_dataset_type(types[k].name),
        "get": lambda bt, k: bt.get(refs[k]),
        "query": lambda bt, k: bt.query_datasets(types[k].name, collections=["r1"], explain=False),
        "refresh": lambda bt, k: bt.registry.refresh(),
    }
    corpus = [[("getDataset", "plain"), ("getDataset", "calib")]]
    n_seq = 25 if ctx.quick() else 600
    for n in range(n_seq + len(corpus)):
        seq = corpus[n] if n < len(corpus) else [(rng.choice(sorted(warm)), rng.choice(sorted(types))) for _ in range(rng.randint(1, 4))]
        bt = Butler.from_config(root)
        for op, k in seq:
            warm[op](bt, k)
        got = battery(bt)
        ctx.evaluations += 1
        ctx.count("dataset-type-cache-warmup")
        if len({k for _, k in seq}) > 1:
            ctx.nontrivial.add(repr(seq))
        if got != want:
            diff = [k for k in want if got[k] != want[k]]
            first_two = [x for x in seq if x[0] in ("getDataset", "get_dataset", "get")]
            viol(f"after warm-up {seq} a fresh client answers {diff[0]} with {got[diff[0]]}, a client that loaded all dataset types answers {want[diff[0]]}"
                 f" ({len(diff)} probes differ)",
                 "dataset-type-cache-forgets-calibration-table" if all("Assertion" in str(got[k]) for k in diff) else f"dtcache:{seq}",
                 {"kind": "dtcache", "warmup": [list(x) for x in seq], "differs": [str(k) for k in diff[:5]]})
        del bt


# ------------------------------------------------------------------ (g) once every caching context is left the caches are off
def after_contexts(ctx, tmp):
    """A client enters caching contexts (nested up to three deep, some through calls that open one themselves), something fails
    at the innermost level and is caught at a random level (outside all of them, or inside an outer one); when the client is
    back outside every context it must answer like a client that never used one: another client's new collections and datasets
    are seen, and a chain edit is accepted."""
    from lsst.daf.butler import Butler, CollectionType, DatasetType

    rng = ctx.rng
    root = os.path.join(tmp, "g")
    a = repo.make_butler(root)
    repo.basic_dimensions(a, detectors=(1, 2, 3))
    dt = DatasetType("gt", {"instrument", "detector"}, "StructuredDataDict", universe=a.dimensions)
    a.registry.registerDatasetType(dt)
    a.registry.registerRun("g_base")
    a.put({"v": 0}, dt, instrument="I", detector=1, run="g_base")
    w = Butler.from_config(root, writeable=True)  # the other client, which writes
    list(w.registry.queryDatasetTypes())
    n_hist = 14 if ctx.quick() else 200

    class Boom(Exception):
        pass

    def viol(what, key, replay):
        ctx.violations.append(core.Violation(what=what, key=key, replay=replay))

    def view(bt, colls):
        out = {"collections": sorted(bt.registry.queryCollections())}
        for c in colls:
            try:
                out[f"queryDatasets {c}"] = sorted(str(r.id) for r in bt.registry.queryDatasets(dt, collections=[c]))
            except Exception as e:
                out[f"queryDatasets {c}"] = type(e).__name__
            try:
                out[f"query_datasets {c}"] = sorted(str(r.id) for r in bt.query_datasets(dt, collections=[c], explain=False))
            except Exception as e:
                out[f"query_datasets {c}"] = type(e).__name__
            try:
                out[f"flatten {c}"] = list(bt.registry.queryCollections(c, flattenChains=True))
            except Exception as e:
                out[f"flatten {c}"] = type(e).__name__
        return out

    for h in range(n_hist):
        chain, tag = f"g_chain{h}", f"g_tag{h}"
        a.registry.registerCollection(tag, CollectionType.TAGGED)
        a.registry.registerCollection(chain, CollectionType.CHAINED)
        a.registry.setCollectionChain(chain, ["g_base", tag])
        depth = rng.randint(1, 3)
        fail = rng.choice(["none", "raise", "raise", "removeRuns-of-tagged", "query-bad-collection"])
        catch_at = rng.randint(0, depth - 1) if fail != "none" else None
        if h == 0:
            depth, fail, catch_at = 1, "removeRuns-of-tagged", 1  # the failing call opens the second context itself
        shape = {"depth": depth, "fails": fail, "caught_with_contexts_open": catch_at}
        caught = []

        def nest(level):
            def body():
                if level == depth:
                    view(a, [chain])  # fills the caches
                    if fail == "raise":
                        raise Boom()
                    if fail == "removeRuns-of-tagged":
                        a.removeRuns([tag])  # refused: not a RUN; opens a caching context of its own
                    if fail == "query-bad-collection":
                        with a.registry.caching_context():
                            a.registry.queryDatasets(dt, collections=[f"g_missing{h}"]).any()
                    return
                with a.registry.caching_context():
                    nest(level + 1)

            if catch_at is not None and level == catch_at:
                try:
                    body()
                except Exception as e:
                    caught.append(type(e).__name__)
                    if level > 0:
                        view(a, [chain])
            else:
                body()

        try:
            nest(0)
        except Exception as e:
            ctx.broken.append(f"after_contexts: shape {shape}: {type(e).__name__}: {e} escaped")
            continue
        if fail != "none" and not caught:
            ctx.notes.append(f"after_contexts: shape {shape}: the planned failure did not happen")
        # the other client now adds a run to the repository, a dataset in it, and puts the run into the chain
        newrun = f"g_new{h}"
        w.registry.registerRun(newrun)
        w.put({"v": h}, dt, instrument="I", detector=rng.choice((1, 2, 3)), run=newrun)
        w.collections.prepend_chain(chain, [newrun])
        fresh = Butler.from_config(root, writeable=False)
        va, vf = view(a, [chain, newrun]), view(fresh, [chain, newrun])
        ctx.evaluations += 1
        ctx.count(f"after-contexts:{fail}" + ("" if catch_at is None else ":caught-inside" if catch_at > 0 else ":caught-outside"))
        ctx.nontrivial.add(repr(shape))
        if va != vf:
            diff = [k for k in vf if va.get(k) != vf[k]]
            viol(f"a client that has left every caching context (shape {shape}, caught {caught}) answers {diff[0]} with {va.get(diff[0])} "
                 f"after another client added run {newrun} to the chain; a client without caches answers {vf[diff[0]]}",
                 f"after-contexts:{fail}:{depth}:{catch_at}", {"kind": "after-contexts", "shape": shape, "differs": diff})
            continue
        # and a chain edit by the client itself is accepted (it is refused only while a caching context is active)
        try:
            a.collections.extend_chain(chain, [tag]) if rng.random() < 0.5 else a.collections.remove_from_chain(chain, [tag])
            va, vf = view(a, [chain]), view(Butler.from_config(root, writeable=False), [chain])
            if va != vf:
                viol(f"after its own chain edit outside any caching context (shape {shape}) the client flattens {chain} to {va[f'flatten {chain}']}, "
                     f"a fresh client to {vf[f'flatten {chain}']}", f"after-contexts-edit:{fail}:{depth}:{catch_at}", {"kind": "after-contexts", "shape": shape})
        except Exception as e:
            viol(f"a client that has left every caching context (shape {shape}, caught {caught}) is refused a chain edit: {type(e).__name__}: {e}",
                 f"after-contexts-edit-refused:{fail}:{depth}:{catch_at}", {"kind": "after-contexts", "shape": shape})
        del fresh


# ------------------------------------------------------------------ (h) a cloned client is a new client
def cloned_clients(ctx, tmp):
    """Butler.clone() makes a new client: whatever the original had cached (all dataset types listed, some looked up by name,
    collection lists), the clone answers like a client opened from the configuration at the same moment - in particular it sees
    the dataset types, collections and datasets other clients added before it was made."""
    from lsst.daf.butler import Butler, DatasetType

    rng = ctx.rng
    root = os.path.join(tmp, "hc")
    w = repo.make_butler(root)
    repo.basic_dimensions(w, detectors=(1, 2))
    base = DatasetType("h_base", {"instrument", "detector"}, "StructuredDataDict", universe=w.dimensions)
    w.registry.registerDatasetType(base)
    w.registry.registerRun("h_run")
    w.put({"v": 0}, base, instrument="I", detector=1, run="h_run")
    n_hist = 10 if ctx.quick() else 120

    def viol(what, key, replay):
        ctx.violations.append(core.Violation(what=what, key=key, replay=replay))

    def battery(bt, names, runs):
        out = {"types": sorted(t.name for t in bt.registry.queryDatasetTypes()),
               "types h_*": sorted(t.name for t in bt.registry.queryDatasetTypes("h_*")),
               "collections": sorted(bt.registry.queryCollections())}
        for api in ("queryDatasets ...", "_query_all_datasets"):
            try:
                if api == "queryDatasets ...":
                    v = sorted(str(r.id) for r in bt.registry.queryDatasets(..., collections=runs))
                else:
                    v = sorted(str(r.id) for r in bt._query_all_datasets(collections=runs, find_first=False))
            except Exception as e:
                v = type(e).__name__
            out[api] = v
        for n in names:
            try:
                out[f"query_datasets {n}"] = sorted(str(r.id) for r in bt.query_datasets(n, collections=runs, explain=False))
            except Exception as e:
                out[f"query_datasets {n}"] = type(e).__name__
        return out

    warmups = {
        "list-all-types": lambda bt: list(bt.registry.queryDatasetTypes()),
        "glob-types": lambda bt: list(bt.registry.queryDatasetTypes("h_*")),
        "by-name": lambda bt: bt.get_dataset_type("h_base"),
        "query-all": lambda bt: bt._query_all_datasets(collections=["h_run"], find_first=False),
        "query-one": lambda bt: bt.query_datasets("h_base", collections=["h_run"], explain=False),
        "collections": lambda bt: list(bt.registry.queryCollections()),
        "refresh": lambda bt: bt.registry.refresh(),
        "nothing": lambda bt: None,
    }
    names, runs = ["h_base"], ["h_run"]
    for h in range(n_hist):
        a = Butler.from_config(root, writeable=False)
        seq = ["list-all-types"] if h == 0 else [rng.choice(sorted(warmups)) for _ in range(rng.randint(1, 3))]
        for op in seq:
            warmups[op](a)
        # another client registers a dataset type (same or new dimensions), a run, and stores a dataset
        dims = rng.choice([{"instrument", "detector"}, {"instrument"}])
        nt = DatasetType(f"h_t{h}", dims, "StructuredDataDict", universe=w.dimensions)
        w.registry.registerDatasetType(nt)
        w.registry.registerRun(f"h_r{h}")
        w.put({"v": h}, nt, {"instrument": "I", "detector": 2} if "detector" in dims else {"instrument": "I"}, run=f"h_r{h}")
        names, runs = names + [nt.name], runs + [f"h_r{h}"]
        c = a.clone()
        second = c.clone() if rng.random() < 0.3 else c
        got, want = battery(second, names[-3:], runs), battery(Butler.from_config(root, writeable=False), names[-3:], runs)
        ctx.evaluations += 1
        ctx.count("cloned-client")
        ctx.nontrivial.add(repr((h, seq)))
        if got != want:
            diff = [k for k in want if got.get(k) != want[k]]
            viol(f"a clone of a client that had done {seq} before another client registered dataset type {nt.name} answers {diff[0]} with "
                 f"{got.get(diff[0])}; a client opened at the same moment answers {want[diff[0]]} ({len(diff)} probes differ)",
                 f"clone:{seq}", {"kind": "clone", "warmup": seq, "differs": diff})
        del a, c, second


# ------------------------------------------------------------------ (i) the toggle itself, driven directly
def toggle_direct(ctx):
    """Random programs of nested `CachingContext` contexts on the real class: exceptions raised at random places and caught at
    random levels; at every point the caches are there exactly while a context is open (what `C17.Toggle.run_inv` states about
    the translation), and they are gone once all are left."""
    from lsst.daf.butler.registry._caching_context import CachingContext

    rng = ctx.rng

    class Boom(Exception):
        pass

    def viol(what, key, replay):
        ctx.violations.append(core.Violation(what=what, key=key, replay=replay))

    n_prog = 300 if ctx.quick() else 5000
    for n in range(n_prog):
        cc = CachingContext()
        trace, bad = [], []

        def observe(open_now):
            for nm, val in (("records", cc.collection_records), ("summaries", cc.collection_summaries)):
                if (val is not None) != (open_now > 0) and not bad:
                    bad.append(f"after {trace}: {open_now} context(s) open, the collection {nm} cache is {'on' if val is not None else 'off'}")

        def prog(level, budget):
            # a block: a few statements, each either a nested context, a raise, or a guarded nested block
            for _ in range(rng.randint(0, 3)):
                if budget[0] <= 0:
                    return
                budget[0] -= 1
                r = rng.random()
                if r < 0.45 and level < 4:
                    cms = [cc.enable_collection_record_cache, cc.enable_collection_summary_cache]
                    trace.append("enter")
                    try:
                        with cms[0](), cms[1]():
                            observe(level + 1)
                            prog(level + 1, budget)
                        trace.append("leave")
                    except Boom:
                        trace.append("leave(exc)")
                        observe(level)
                        raise
                    observe(level)
                elif r < 0.65:
                    trace.append("raise")
                    raise Boom()
                elif r < 0.9:
                    trace.append("try")
                    try:
                        prog(level, budget)
                    except Boom:
                        trace.append("caught")
                        observe(level)

        try:
            prog(0, [rng.randint(3, 14)])
        except Boom:
            trace.append("caught-outside")
        observe(0)
        ctx.evaluations += 1
        ctx.count("toggle-program")
        if "leave(exc)" in trace:
            ctx.nontrivial.add(("toggle", n))
        if bad:
            viol(bad[0], f"toggle:{trace}", {"kind": "toggle", "trace": trace})
            break


# ------------------------------------------------------------------ (e) the dimension-record cache and the client's own record writes
def dimension_record_cache(ctx, tmp):
    """A client that has the records of the cached elements loaded (instrument, detector, physical_filter, ...) writes records
    itself — insert, insert(replace=True), sync, sync(update=True) — and must then read what an uncached fresh client reads:
    through expandDataId and queryDimensionRecords, inside and outside a caching context."""
    from lsst.daf.butler import Butler

    rng = ctx.rng
    root = os.path.join(tmp, "dimcache")
    a = repo.make_butler(root, run="r1")
    repo.basic_dimensions(a, detectors=(1, 2, 3))

    def viol(what, key, replay):
        ctx.violations.append(core.Violation(what=what, key=key, replay=replay))

    def view(bt):
        out = {}
        for d in (1, 2, 3, 4, 5):
            try:
                out[("expand", d)] = bt.registry.expandDataId(instrument="I", detector=d).records["detector"].full_name
            except Exception as e:
                out[("expand", d)] = type(e).__name__
        out["query"] = sorted((r.id, r.full_name, r.purpose) for r in bt.registry.queryDimensionRecords("detector", instrument="I"))
        out["query2"] = sorted((r.id, r.full_name) for r in bt.query_dimension_records("detector", instrument="I", explain=False))
        out["filters"] = sorted((r.name, r.band) for r in bt.registry.queryDimensionRecords("physical_filter", instrument="I"))
        return out

    names = {}
    for n in range(20 if ctx.quick() else 300):
        cached = rng.random() < 0.5
        ops = []
        with (a.registry.caching_context() if cached else contextlib.nullcontext()):
            view(a)  # load the caches
            for _ in range(rng.randint(1, 3)):
                d = rng.choice([1, 2, 3, 4, 5])
                how = rng.choice(["sync-update", "sync-update", "replace", "insert", "sync", "filter-sync-update"])
                new_name = f"d{d}-{n}-{len(ops)}"
                rec = {"instrument": "I", "id": d, "full_name": new_name, "purpose": rng.choice(["SCIENCE", "GUIDER", None])}
                try:
                    if how == "sync-update":
                        a.registry.syncDimensionData("detector", rec, update=True)
                    elif how == "sync":
                        a.registry.syncDimensionData("detector", rec)
                    elif how == "replace":
                        a.registry.insertDimensionData("detector", rec, replace=True)
                    elif how == "insert":
                        a.registry.insertDimensionData("detector", rec)
                    else:
                        a.registry.syncDimensionData("physical_filter", {"instrument": "I", "name": "f", "band": rng.choice(["r", "g", "i"])}, update=True)
                    ops.append(f"{how} {d}: ok")
                except Exception as e:
                    ops.append(f"{how} {d}: {type(e).__name__}")
            got = view(a)
            want = view(Butler.from_config(root))
        ctx.evaluations += 1
        ctx.count("dimension-record-cache:" + ("cached" if cached else "plain"))
        ctx.nontrivial.add(("dimcache", tuple(ops)))
        if got != want:
            k = next(k_ for k_ in want if got[k_] != want[k_])
            viol(f"after its own record writes {ops} ({'inside' if cached else 'outside'} a caching context) the client reads {k} = {got[k]}, "
                 f"a fresh client reads {want[k]}", f"dimension-record-cache:{[o.split(':')[0].split()[0] for o in ops]}",
                 {"kind": "dimension-record-cache", "ops": ops, "cached": cached})
            break


def trust_unstore_cached(ctx, tmp):
    """A datastore in trust mode, a dataset whose artifact exists but which the datastore has no records for, its content in the
    file cache: after pruneDatasets(unstore=True) the client must not go on serving or reporting it from the cache."""
    from lsst.daf.butler import Butler, Config, DatasetType

    def viol(what, key, replay):
        ctx.violations.append(core.Violation(what=what, key=key, replay=replay))

    root = os.path.join(tmp, "trustcache")
    cache_dir = os.path.join(tmp, "trustcache_cache")
    Butler.makeRepo(root, config=Config({"datastore": {"trust_get_request": True, "cached": {"root": cache_dir, "cacheable": {"default": True}, "default": True}}}))
    b = Butler.from_config(root, writeable=True, run="r1")
    repo.basic_dimensions(b, detectors=(1, 2))
    dt = DatasetType("dt", {"instrument", "detector"}, "StructuredDataDict", universe=b.dimensions)
    b.registry.registerDatasetType(dt)
    for with_records in (False, True):
        ref = b.put({"v": 1}, dt, instrument="I", detector=1 if with_records else 2)
        uri = b.getURI(ref)
        if not with_records:
            b._datastore.forget([ref])  # the artifact stays, the records are gone: trust mode finds it where the template puts it
        cm = b._datastore.cacheManager
        # the content in the file cache, as a remote datastore would have put it there on the first get
        try:
            copy = os.path.join(tmp, f"trustcache_copy{int(with_records)}.yaml")
            shutil.copy(uri.ospath, copy)
            from lsst.resources import ResourcePath

            cm.move_to_cache(ResourcePath(copy), ref)
        except Exception as e:
            ctx.notes.append(f"trust-unstore-cached: could not fill the cache ({type(e).__name__}: {str(e)[:80]})")
            continue
        known_before = cm.known_to_cache(ref)
        b.pruneDatasets([ref], unstore=True, disassociate=False, purge=False)
        ctx.evaluations += 1
        ctx.count("trust-unstore-cached:" + ("records" if with_records else "no-records"))
        problems = []
        if not known_before:
            ctx.notes.append("trust-unstore-cached: the cache manager did not accept the file (caching disabled?)")
            continue
        if cm.known_to_cache(ref):
            problems.append("the file cache still holds the removed dataset")
        if os.path.exists(uri.ospath):
            problems.append("the artifact is still in the datastore")
        fresh = Butler.from_config(root)
        if b.stored(ref) != fresh.stored(ref) or b._datastore.exists(ref) != fresh._datastore.exists(ref):
            problems.append(f"stored() = {b.stored(ref)}, datastore.exists() = {b._datastore.exists(ref)}; a client without this cache answers "
                            f"{fresh.stored(ref)} / {fresh._datastore.exists(ref)}")
        if problems:
            viol(f"trust mode, dataset {'with' if with_records else 'without'} datastore records, content in the file cache, pruneDatasets(unstore=True): "
                 + "; ".join(problems), f"trust-unstore-cached:{with_records}", {"kind": "trust-unstore-cached", "records": with_records, "problems": problems})


# ------------------------------------------------------------------ (d) the summary / record caches against the RegCache model
def summary_cache(ctx, model_ok, tmp):
    """Collection summaries read by a client inside a caching context, mirrored to Model/RegCache.lean: enter / exit the
    context, puts (which extend a run's summary), failed transaction blocks (rolled back), reads."""
    from lsst.daf.butler import Butler, DatasetType

    rng = ctx.rng
    root = os.path.join(tmp, "s")
    a = repo.make_butler(root)
    repo.basic_dimensions(a, detectors=tuple(range(1, 60)))
    dts = [DatasetType(f"sd{i}", {"instrument", "detector"}, "StructuredDataDict", universe=a.dimensions) for i in range(3)]
    for d in dts:
        a.registry.registerDatasetType(d)
    b = Butler.from_config(root, writeable=False)  # uncached observer
    req, impl = [], []
    det = [0]

    def viol(what, key, replay):
        ctx.violations.append(core.Violation(what=what, key=key, replay=replay))

    def mask(bt, run):
        names = {t.name for t in bt.registry.getCollectionSummary(run).dataset_types}
        return sum(1 << i for i, d in enumerate(dts) if d.name in names)

    n_hist = 12 if ctx.quick() else 300
    for h in range(n_hist):
        runs = [f"s{h}_{i}" for i in range(2)]
        for r in runs:
            a.registry.registerRun(r)
        req.append("rc new"), impl.append("ok")
        truth = {0: 0, 1: 0}
        ops = []
        import contextlib

        with contextlib.ExitStack() as stack:
            inside = False
            for step in range(rng.randint(6, 14)):
                r_ = rng.random()
                if r_ < 0.12 and not inside:
                    stack.enter_context(a.registry.caching_context())
                    inside = True
                    req.append("rc enter"), impl.append("ok")
                    ops.append("enter")
                elif r_ < 0.18 and inside:
                    stack.close()
                    inside = False
                    req.append("rc exit"), impl.append("ok")
                    ops.append("exit")
                elif r_ < 0.45:
                    k, t = rng.randrange(2), rng.randrange(3)
                    det[0] += 1
                    if det[0] >= 58:
                        break
                    a.put({"v": step}, dts[t], instrument="I", detector=det[0], run=runs[k])
                    truth[k] |= 1 << t
                    req.append(f"rc write {k} {truth[k]}"), impl.append("ok")
                    ops.append(f"put {k} {t}")
                elif r_ < 0.58:
                    # a transaction block that writes, reads through the cache, and fails
                    k, t = rng.randrange(2), rng.randrange(3)
                    det[0] += 1
                    if det[0] >= 58:
                        break
                    snap = dict(truth)
                    try:
                        with a.transaction():
                            a.put({"v": step}, dts[t], instrument="I", detector=det[0], run=runs[k])
                            req.append(f"rc write {k} {truth[k] | (1 << t)}"), impl.append("ok")
                            got = mask(a, runs[k])
                            req.append(f"rc read {k}"), impl.append(str(got))
                            raise RuntimeError("boom")
                    except RuntimeError:
                        pass
                    req.append("rc rollback " + ",".join(f"{kk}@{vv}" for kk, vv in snap.items())), impl.append("ok")
                    ops.append(f"failed-block put {k} {t}")
                else:
                    k = rng.randrange(2)
                    got = mask(a, runs[k])
                    req.append(f"rc read {k}"), impl.append(str(got))
                    ops.append(f"read {k} -> {got}")
                    ctx.evaluations += 1
                    want = mask(b, runs[k])
                    if got != want:
                        viol(f"summary of a run read by the cached client after {ops[-4:]} has dataset-type mask {got}, an uncached client sees {want}",
                             f"summary-cache:{ops}", {"kind": "summary-cache", "ops": ops})
                        break
        ctx.count("summary-cache-history")
        if any(o.startswith("failed") for o in ops) and "enter" in ops:
            ctx.nontrivial.add(("summary", tuple(ops)))
    if model_ok:
        got = core.driver(req)
        nd = 0
        for line, m, i in zip(req, got, impl):
            if m != i:
                nd += 1
                if nd <= 5:
                    ctx.broken.append(f"correspondence (registry cache): `{line}` model={m} implementation={i}")
        ctx.extra["regcache_correspondence_lines"] = len(req)
        ctx.extra["regcache_correspondence_disagreements"] = nd


def replay(ctx, content):
    print("replay:", content.get("what"))
    print("ops:", content.get("ops"))
    run(ctx)
    return core.finish(ctx)
