"""C18 — core value objects survive every serialisation unchanged.

Model: Model/ConfigKeys.lean (Config.names() joining/escaping, _splitIntoKeys, lookup in a dict/list tree,
dataset-type name split/join); theorems in Props/C18.lean.  The algebraic cores of the other simple forms
are theorems of C11 (Timespan nsec/reduce forms) and C12 (dimension group = closure of its names).
Tie: C — generated hierarchical keys and nested configs through the real Config, compared with the model
(split / join) — plus the model-free round-trip oracle `x == read(write(x))`, same hash, same expansion
state, for generated dataset types, refs, data IDs, records, groups, timespans and configs through
to_simple/from_simple, JSON, pickle and YAML, inside and outside a PersistenceContext.
"""
from __future__ import annotations

import copy
import json
import os
import pickle

from vlib import core, repo

LEVEL = "proof"
LEAN_TARGETS = ["ButlerModel.Props.C18", "driver"]


def run(ctx):
    ctx.rule = (
        "config keys: seeded key components over an awkward alphabet (delimiters, dots, backslashes, spaces, unicode, '\\r', digits) "
        "joined with seeded delimiters and split again; nested dict/list configs with such keys: every name of names() / nameTuples() "
        "must retrieve its value; value objects: generated dataset types (components, calibrations, parent storage classes), "
        "resolved refs, data IDs in required / full / expanded state over sampled dimension groups, dimension records with NULLs, "
        "regions and timespans, dimension groups, through simple/JSON/pickle/YAML forms, inside and outside a PersistenceContext; "
        "non-trivial = distinct objects/keys that are not the empty or default instance"
    )
    ctx.assumptions = ["pydantic, json, pickle and PyYAML are trusted carriers of the simple forms (validated here, not modelled)"]
    with core.Lock():
        # T-tie: the string branch of Config._splitIntoKeys is translated from the working tree into Gen/ConfigPy.lean;
        # C18.Translated.translated_split identifies it with the model's `split`, which the round-trip theorems are about
        import sys as _sys

        _sys.path.insert(0, os.path.join(core.VERIF, "translate"))
        try:
            import gen_config

            gen_config.generate(core.GEN_DIR)
        except Exception as e:
            ctx.broken.append(f"translation: Config._splitIntoKeys: {type(e).__name__}: {e}")
        built = core.lean_build(ctx, LEAN_TARGETS)
        if built:
            core.lean_audit(ctx, ["ButlerModel.Props.C18"])
            if not ctx.quick():
                core.leanchecker(ctx, ["ButlerModel.Props.C18"])
    config_keys(ctx, built)
    with repo.Scratch("verif-c18-") as tmp:
        value_objects(ctx, tmp)


def hexs(s):
    return s.encode("utf-8").hex() or "-"


def config_keys(ctx, model_ok):
    from lsst.daf.butler import Config

    rng = ctx.rng
    req, impl = [], []

    def viol(what, key, replay):
        ctx.violations.append(core.Violation(what=what, key=key, replay=replay))

    # (ASCII letters/digits only: Python's str.isalnum() is Unicode-aware, the model's is not)
    alphabet = ["a", "b", "c", "1", "0", ".", "→", ":", "/", "\\", " ", "_", "-", "\r", "#", "%"]
    delims = [".", "→", ":", "/", "#", "\\", "%", "-", " ", "\r"]

    def comp():
        n = rng.choice([1, 1, 2, 2, 3, 4])
        return "".join(rng.choice(alphabet) for _ in range(n))

    # ---- split / join correspondence on raw strings (incl. invalid escapes)
    n_cases = 1500 if ctx.quick() else 40000
    for _ in range(n_cases):
        d = rng.choice(delims)
        ks = [comp() for _ in range(rng.randint(1, 4))]
        if rng.random() < 0.5:
            key = d + d.join(k.replace(d, f"\\{d}") for k in ks)  # exactly what names() produces
            req.append("cfg join " + hexs(d) + " " + " ".join(hexs(k) for k in ks))
            impl.append(hexs(key))
        else:
            key = "".join(rng.choice(alphabet + delims) for _ in range(rng.randint(1, 8)))
        try:
            out = Config._splitIntoKeys(key)
            o = "ok " + " ".join(hexs(str(k)) for k in out)
        except ValueError:
            o = "err ValueError"
        except Exception as e:
            o = f"err INTERNAL:{type(e).__name__}"
        req.append("cfg split " + hexs(key))
        impl.append(o)
        ctx.evaluations += 1
        ctx.nontrivial.add(key)
    ctx.count("split-join-cases", n_cases)

    # ---- nested configs: every reported name retrieves its value
    def gen_tree(depth):
        r = rng.random()
        if depth == 0 or r < 0.3:
            return rng.choice([1, "x", None, 2.5, True, "", "a.b"])
        if r < 0.75:
            out = {}
            for _ in range(rng.randint(1, 3)):
                k = comp()
                if rng.random() < 0.06:
                    k = rng.choice([1, 2, 10])  # non-string key (YAML allows it)
                elif rng.random() < 0.06:
                    k = ""  # an empty key is a key like any other
                out[k] = gen_tree(depth - 1)
            return out
        return [gen_tree(depth - 1) for _ in range(rng.randint(1, 3))]

    def at(tree, path):
        for k in path:
            tree = tree[k]
        return tree

    def has_cr(t):
        if isinstance(t, dict):
            return any(("\r" in str(k)) or has_cr(v) for k, v in t.items())
        if isinstance(t, list):
            return any(has_cr(v) for v in t)
        return False

    n_cfg = 300 if ctx.quick() else 6000
    # corpus first: the recorded witnesses of the known findings, then generated trees
    corpus = [{"a\\": {"b": 1}}, {"a": {1: 2}}, {"x": {"\\/": 1}}, {"1\r.1": "", "k": 1}, {"c": ["x", 1], "/c": 1},
              {"formatters": {"": {"deep": 1}, "x": 2}}, {"a": {"": 5}}]
    for n_tree in range(n_cfg + len(corpus)):
        if n_tree < len(corpus):
            tree = corpus[n_tree]
        else:
            tree = {comp(): gen_tree(rng.choice([1, 2, 3])) for _ in range(rng.randint(1, 3))}
        try:
            c = Config(copy.deepcopy(tree))
        except Exception:
            continue
        ctx.evaluations += 1
        ctx.count("nested-configs")
        for delim in (None, ".", "/"):
            try:
                names = c.names(delimiter=delim)
                tuples = c.nameTuples()
            except Exception as e:
                viol(f"Config({tree!r}).names(delimiter={delim!r}) raised {type(e).__name__}: {e}", f"names-raise:{tree!r}:{delim}",
                     {"kind": "config", "tree": repr(tree), "delimiter": delim})
                continue
            for name, tup in zip(names, tuples):
                want = at(tree, tup)
                try:
                    got = c[name]
                    got = got.toDict() if isinstance(got, Config) else got
                    ok = got == want
                    outcome = None if ok else f"returns {got!r}, value at {tup} is {want!r}"
                except Exception as e:
                    outcome = f"raises {type(e).__name__}"
                if outcome:
                    # classify by the mechanism visible in the failing name itself (each class is a documented upstream limitation)
                    dl = name[0]
                    comps = [str(k) for k in tup]
                    int_key = any(not isinstance(k, str) and isinstance(at(tree, tup[:i]), dict) for i, k in enumerate(tup))
                    if int_key:
                        key = "config-non-string-dict-key"
                    elif any(cmp_.endswith("\\") for cmp_ in comps[:-1]):
                        key = "config-key-trailing-backslash"
                    elif any(("\\" + dl) in cmp_ for cmp_ in comps):
                        key = "config-key-backslash-before-delimiter"
                    elif ("\\" + dl) in name and ("\r" in name or dl == "\r"):
                        key = "config-key-cr-with-escaped-delimiter"
                    elif isinstance(tree, dict) and name in tree and tup != (name,):
                        # the delimited name of one entry is, character for character, a top-level key of another entry
                        key = "config-name-equals-top-level-key"
                    else:
                        key = f"config-name:{tree!r}:{name!r}"
                    viol(f"Config({tree!r}): name {name!r} reported by names(delimiter={delim!r}) {outcome}", key,
                         {"kind": "config", "tree": repr(tree), "name": name, "tuple": [str(k) for k in tup], "delimiter": delim})
                    break
            # the tuple form must always work
            for tup in tuples:
                try:
                    got = c[tup]
                    got = got.toDict() if isinstance(got, Config) else got
                    ok = got == at(tree, tup)
                except Exception as e:
                    ok = False
                if not ok:
                    viol(f"Config({tree!r}): key tuple {tup!r} from nameTuples() does not retrieve its value", f"config-tuple:{tree!r}:{tup!r}",
                         {"kind": "config", "tree": repr(tree), "tuple": [str(k) for k in tup]})
                    break
    ctx.sample({"request": req[0], "implementation": impl[0]})
    if model_ok:
        got = core.driver(req)
        nd = 0
        for line, m, i in zip(req, got, impl):
            if m != i:
                nd += 1
                if nd <= 5:
                    ctx.broken.append(f"correspondence: `{line}` model={m} implementation={i}")
        ctx.extra["correspondence_lines"] = len(req)
        ctx.extra["correspondence_disagreements"] = nd
    else:
        ctx.notes.append("model not built: correspondence skipped")


def value_objects(ctx, tmp):
    import astropy.time
    import yaml
    from lsst.daf.butler import (
        DataCoordinate, DatasetRef, DatasetType, DimensionGroup, DimensionRecord, DimensionUniverse, StorageClassFactory, Timespan,
    )
    from lsst.daf.butler.persistence_context import PersistenceContextVars

    rng = ctx.rng

    def viol(what, key, replay):
        ctx.violations.append(core.Violation(what=what, key=key, replay=replay))

    b = repo.make_butler(os.path.join(tmp, "r"))
    repo.basic_dimensions(b, detectors=(1, 2), filters=(("f1", "r"), ("f2", "g")))
    reg = b.registry
    reg.insertDimensionData("day_obs", {"instrument": "I", "id": 20240101})
    from checks.c16 import box

    for v in (1, 2, 3):
        reg.insertDimensionData("visit", {
            "instrument": "I", "id": v, "name": f"v{v}", "physical_filter": "f1" if v < 3 else "f2", "day_obs": 20240101,
            "exposure_time": None if v == 2 else 30.0, "region": None if v == 3 else box(v, v + 1, 0, 1),
            "timespan": None if v == 1 else Timespan(astropy.time.Time("2024-01-01T00:00:00", scale="tai"), astropy.time.Time("2024-01-01T00:00:30.123456789", scale="tai")),
        })
    # records whose set fields are falsy (0, 0.0, False) and records of the elements that join two dimensions
    reg.insertDimensionData("detector", {"instrument": "I", "id": 0, "full_name": "d0", "raft": "R0", "name_in_raft": "S0"})
    reg.insertDimensionData("group", {"instrument": "I", "name": "g"})
    for e, seq in ((100, 0), (101, 1)):
        reg.insertDimensionData("exposure", {"instrument": "I", "id": e, "obs_id": f"o{e}", "physical_filter": "f1", "day_obs": 20240101, "group": "g", "seq_num": seq,
                                             "exposure_time": 0.0 if seq == 0 else 30.0, "dark_time": 0.0, "has_simulated": seq == 1, "can_see_sky": seq == 0,
                                             "azimuth": 0.0, "zenith_angle": 0.0 if seq == 0 else None})
    reg.insertDimensionData("visit_definition", {"instrument": "I", "visit": 1, "exposure": 100}, {"instrument": "I", "visit": 2, "exposure": 101})
    for det in (0, 1):
        reg.insertDimensionData("visit_detector_region", {"instrument": "I", "visit": 1, "detector": det, "region": box(1 + det * 0.5, 1.5 + det * 0.5, 0, 1)})
    u = b.dimensions
    scf = StorageClassFactory()

    def roundtrips(kind, x, forms):
        for form, fn in forms:
            ctx.evaluations += 1
            ctx.count(f"{kind}:{form}")
            for ctxt in ("plain", "persistence-context"):
                try:
                    if ctxt == "plain":
                        y = fn(x)
                    else:
                        y = PersistenceContextVars().run(fn, x)
                except Exception as e:
                    viol(f"{kind} {x!r}: {form} round trip ({ctxt}) raised {type(e).__name__}: {e}", f"rt-raise:{kind}:{form}:{x!r}",
                         {"kind": "roundtrip", "object": kind, "form": form, "repr": repr(x)})
                    continue
                problems = []
                if not (y == x):
                    problems.append("not equal")
                try:
                    if hash(y) != hash(x):
                        problems.append("hash differs")
                except TypeError:
                    pass
                if isinstance(x, DataCoordinate):
                    if form != "simple-minimal" and (y.hasFull() != x.hasFull() or (form in ("pickle",) and y.hasRecords() != x.hasRecords())):
                        problems.append(f"expansion state changed (full {x.hasFull()}->{y.hasFull()}, records {x.hasRecords()}->{y.hasRecords()})")
                    if y.hasRecords() and x.hasRecords():
                        for el in x.dimensions.elements:
                            try:
                                rx = x.records[el]
                            except KeyError:
                                rx = "missing"
                            try:
                                ry = y.records[el]
                            except KeyError:
                                ry = "missing"
                            # (an element without a stored record is `None` in a freshly expanded data ID and absent after
                            #  a round trip; both mean "no record" and are not distinguished here)
                            if rx != ry and not ({str(rx), str(ry)} <= {"None", "missing"}):
                                problems.append(f"record of {el} differs")
                if isinstance(x, DatasetRef) and (y.id != x.id or y.run != x.run or y.datasetType != x.datasetType or y.dataId != x.dataId):
                    problems.append("id/run/type/dataId differ")
                if isinstance(x, DatasetType) and (y.isCalibration() != x.isCalibration() or y.storageClass_name != x.storageClass_name
                                                   or y.dimensions != x.dimensions or y.parentStorageClass != x.parentStorageClass):
                    problems.append("fields differ")
                if isinstance(x, DimensionRecord) and y.toDict() != x.toDict():
                    problems.append("record fields differ")
                if problems:
                    viol(f"{kind} {x!r}: {form} round trip ({ctxt}) -> {y!r}: " + ", ".join(problems), f"rt:{kind}:{form}:{x!r}",
                         {"kind": "roundtrip", "object": kind, "form": form, "repr": repr(x), "problems": problems})

    # dimension groups
    dims = [d for d in u.dimensions.names if d not in u.skypix_dimensions.names] + ["htm7", "healpix5"]
    groups = [DimensionGroup(u, [d for d in dims if rng.random() < 0.2]) for _ in range(40 if ctx.quick() else 600)]
    groups.insert(0, u.empty)  # the empty group (dataset types without dimensions: "packages", configs, ...)
    for g in groups:
        ctx.nontrivial.add(("group", tuple(g.names)))
        roundtrips("DimensionGroup", g, [
            ("simple", lambda x: DimensionGroup.from_simple(x.to_simple(), universe=u)),
            ("pickle", lambda x: pickle.loads(pickle.dumps(x))),
            ("json", lambda x: DimensionGroup.from_simple(json.loads(json.dumps(x.to_simple())), universe=u)),
        ])
    # dataset types
    scs = ["StructuredDataDict", "StructuredDataList", "TablePersistable", "Packages"]
    dts = []
    for i in range(30 if ctx.quick() else 400):
        g = rng.choice(groups)
        calib = rng.random() < 0.3
        dt = DatasetType(f"dt{i}_x", g, rng.choice(scs), isCalibration=calib)
        dts.append(dt)
    dts += [DatasetType("nodims_plain", u.empty, "StructuredDataDict"), DatasetType("nodims_calib", u.empty, "StructuredDataDict", isCalibration=True),
            DatasetType("nodims_packages", u.empty, "Packages")]
    try:
        dts.append(DatasetType("nodims_exp", u.empty, "ExposureF").makeComponentDatasetType("wcs"))
    except Exception:
        pass
    try:
        cal_parent = DatasetType("bias_like", u.conform(["instrument", "detector"]), "ExposureF", isCalibration=True)
        dts += [cal_parent, cal_parent.makeComponentDatasetType("wcs"), cal_parent.makeComponentDatasetType("image")]
    except Exception as e:
        ctx.notes.append(f"calibration component dataset types unavailable here: {type(e).__name__}")
    try:
        comp_parent = DatasetType("exp_like", u.conform(["instrument", "visit"]), "ExposureF")
        dts += [comp_parent, comp_parent.makeComponentDatasetType("wcs"), comp_parent.makeComponentDatasetType("image")]
    except Exception as e:
        ctx.notes.append(f"component dataset types unavailable here: {type(e).__name__}")
    for dt in dts:
        ctx.nontrivial.add(("dstype", dt.name))
        roundtrips("DatasetType", dt, [
            ("simple", lambda x: DatasetType.from_simple(x.to_simple(), universe=u)),
            ("simple-minimal", lambda x: DatasetType.from_simple(x.to_simple(minimal=False), universe=u)),
            ("json", lambda x: DatasetType.from_json(x.to_json(), universe=u)),
            ("pickle", lambda x: pickle.loads(pickle.dumps(x))),
        ])
        # name <-> (root, component)
        root, comp = DatasetType.splitDatasetTypeName(dt.name)
        if DatasetType.nameWithComponent(root, comp) != dt.name if comp else root != dt.name:
            viol(f"splitDatasetTypeName/nameWithComponent do not round-trip {dt.name!r}", f"dsname:{dt.name}", {"kind": "dsname", "name": dt.name})
    # data IDs: required / full / expanded
    dataids = []
    for v in (1, 2, 3):
        for det in (1, 2):
            req_ = DataCoordinate.standardize(instrument="I", visit=v, detector=det, universe=u)
            full = DataCoordinate.standardize(instrument="I", visit=v, detector=det, physical_filter="f1" if v < 3 else "f2", band="r" if v < 3 else "g",
                                              day_obs=20240101, universe=u)
            exp = reg.expandDataId(req_)
            dataids += [req_, full, exp, exp.subset(u.conform(["instrument", "visit"]))]
    for extra in ({"visit": 1, "detector": 0}, {"visit": 1, "detector": 1}, {"visit": 1, "exposure": 100}, {"visit": 2, "exposure": 101, "detector": 0},
                  {"exposure": 100}, {"exposure": 101, "detector": 0}):
        exp = reg.expandDataId(instrument="I", **extra)
        dataids += [exp, DataCoordinate.standardize(exp.mapping, universe=u), DataCoordinate.standardize(exp.required, universe=u)]
    dataids.append(DataCoordinate.make_empty(u))
    for d in dataids:
        ctx.nontrivial.add(("dataid", str(d), d.hasFull(), d.hasRecords()))
        roundtrips("DataCoordinate", d, [
            ("simple", lambda x: DataCoordinate.from_simple(x.to_simple(), universe=u)),
            ("simple-minimal", lambda x: DataCoordinate.from_simple(x.to_simple(minimal=True), universe=u)),
            ("json", lambda x: DataCoordinate.from_json(x.to_json(), universe=u)),
            ("pickle", lambda x: pickle.loads(pickle.dumps(x))),
        ])
    # the same expanded data ID read several times inside ONE persistence context (alone and inside refs that share it): every
    # read comes back with the records
    exp_ids = [d for d in dataids if d.hasRecords() and len(d.dimensions) > 0][:6]
    for d in exp_ids:
        for form, enc_, dec_ in (("simple", lambda x: x.to_simple(), lambda s_: DataCoordinate.from_simple(s_, universe=u)),
                                 ("json", lambda x: x.to_json(), lambda s_: DataCoordinate.from_json(s_, universe=u))):
            ctx.evaluations += 1
            ctx.count(f"data-id-read-thrice-in-one-context:{form}")
            try:
                back = PersistenceContextVars().run(lambda x: [dec_(enc_(x)) for _ in range(3)], d)
            except Exception as e:
                viol(f"reading the expanded data ID {d} three times ({form}) inside one persistence context raised {type(e).__name__}",
                     f"dataid-thrice-raise:{form}", {"kind": "dataid-thrice", "form": form, "dataid": str(d)})
                continue
            states = [(y == d, y.hasFull(), y.hasRecords()) for y in back]
            if any(st_ != (True, d.hasFull(), True) for st_ in states):
                viol(f"reading the expanded data ID {d} three times ({form}) inside one persistence context: (equal, full, records) per read = {states}",
                     f"dataid-thrice:{form}", {"kind": "dataid-thrice", "form": form, "dataid": str(d), "states": [list(x) for x in states]})
    # dimension records of another universe version read after the default one's in the same process (the record classes are
    # per universe: `exposure` of version 6 has no can_see_sky)
    try:
        import lsst.daf.butler as _m
        from lsst.daf.butler import DimensionConfig, DimensionUniverse

        old_dir = os.path.join(os.path.dirname(_m.__file__), "configs", "old_dimensions")
        for fname in sorted(os.listdir(old_dir)):
            if not fname.endswith(".yaml"):
                continue
            ou = DimensionUniverse(DimensionConfig(os.path.join(old_dir, fname)))
            for el, fields in (("exposure", {"instrument": "I", "id": 7, "obs_id": "o7", "physical_filter": "f1"}),
                               ("detector", {"instrument": "I", "id": 3, "full_name": "d3"}),
                               ("visit", {"instrument": "I", "id": 9, "name": "v9", "physical_filter": "f1"})):
                for uni in (u, ou, u):
                    try:
                        elem = uni[el]
                        extra = {k_: v_ for k_, v_ in (("day_obs", 20240101), ("group", "g"), ("visit_system", 0))
                                 if k_ in elem.RecordClass.fields.names and k_ not in fields}
                        if el == "exposure" and "group_name" in elem.RecordClass.fields.names:
                            extra["group_name"] = "g"
                        rec_ = elem.RecordClass(**fields, **extra)
                    except Exception:
                        continue
                    ctx.evaluations += 1
                    ctx.count("record-of-other-universe")
                    try:
                        back = DimensionRecord.from_json(rec_.to_json(), universe=uni)
                        ok_ = back == rec_ and back.toDict() == rec_.toDict()
                        why = "" if ok_ else f"came back as {back.toDict()}"
                    except Exception as e:
                        ok_, why = False, f"raised {type(e).__name__}: {str(e)[:80]}"
                    if not ok_:
                        viol(f"{el} record of universe version {uni.version} (JSON form, read after records of other versions in this process) {why}",
                             f"record-other-universe:{el}:{fname}", {"kind": "record-universe", "element": el, "universe": fname})
                        break
    except ImportError:
        pass
    # dimension records
    for el in ("instrument", "detector", "physical_filter", "visit", "day_obs", "exposure", "group", "visit_definition", "visit_detector_region"):
        for rec in reg.queryDimensionRecords(el, instrument="I"):
            ctx.nontrivial.add(("record", el, str(rec.dataId)))
            roundtrips("DimensionRecord", rec, [
                ("simple", lambda x: DimensionRecord.from_simple(x.to_simple(), universe=u)),
                ("json", lambda x: DimensionRecord.from_json(x.to_json(), universe=u)),
                ("pickle", lambda x: pickle.loads(pickle.dumps(x))),
            ])
    # refs
    dt_ref = DatasetType("ref_dt", u.conform(["instrument", "visit", "detector"]), "StructuredDataDict")
    for d in dataids[:12]:
        if set(d.dimensions.required) != {"instrument", "visit", "detector"}:
            continue
        ref = DatasetRef(dt_ref, d, run="some/run")
        ctx.nontrivial.add(("ref", str(ref.id)))
        roundtrips("DatasetRef", ref, [
            ("simple", lambda x: DatasetRef.from_simple(x.to_simple(), universe=u)),
            ("json", lambda x: DatasetRef.from_json(x.to_json(), universe=u)),
            ("pickle", lambda x: pickle.loads(pickle.dumps(x))),
        ])
    # refs with expanded data IDs through the Quantum form (records de-duplicated into a side table): every ref comes back with the
    # records of *its own* data ID, also when key values of different elements coincide (visit 1 with detector 1, ...)
    try:
        import json as _json

        from lsst.daf.butler import Quantum, SerializedQuantum

        q_refs = [DatasetRef(dt_ref, reg.expandDataId(instrument="I", visit=v_, detector=d_), run="some/run")
                  for v_, d_ in ((1, 1), (2, 2), (1, 2), (2, 1), (1, 0))]
        for n_in in (1, 2, 5):
            ins = q_refs[:n_in]
            quantum = Quantum(taskName="verif.Task", dataId=ins[0].dataId, inputs={dt_ref: ins}, outputs={})
            ctx.evaluations += 1
            ctx.count("quantum-form")
            try:
                back = Quantum.from_simple(SerializedQuantum.direct(**_json.loads(quantum.to_simple().model_dump_json())), universe=u)
                got_refs = list(back.inputs[dt_ref]) if dt_ref in back.inputs else [r_ for rs_ in back.inputs.values() for r_ in rs_]
            except Exception as e:
                viol(f"Quantum form of {n_in} expanded refs: round trip raised {type(e).__name__}: {str(e)[:100]}", f"quantum-form-raise:{n_in}",
                     {"kind": "quantum-form", "refs": n_in})
                continue
            problems = []
            for x in ins:
                y = next((g_ for g_ in got_refs if g_.id == x.id), None)
                if y is None or y != x or y.dataId != x.dataId:
                    problems.append(f"ref of visit {x.dataId['visit']} detector {x.dataId['detector']} missing or changed")
                    continue
                if y.dataId.hasRecords():
                    for el in x.dataId.dimensions.elements:
                        rx = x.dataId.records[el]
                        try:
                            ry = y.dataId.records[el]
                        except KeyError:
                            ry = None  # (an element without a stored record is None before and absent after: both mean "no record")
                            if rx is not None:
                                problems.append(f"visit {x.dataId['visit']} detector {x.dataId['detector']}: no record of {el} after the round trip")
                                continue
                        if rx != ry and not (rx is None and ry is None):
                            problems.append(f"visit {x.dataId['visit']} detector {x.dataId['detector']}: record of {el} differs")
            if problems:
                viol(f"Quantum form of {n_in} expanded refs: " + "; ".join(problems[:3]), f"quantum-form:{n_in}", {"kind": "quantum-form", "refs": n_in, "problems": problems})
    except ImportError as e:
        ctx.notes.append(f"Quantum form unavailable here: {e}")
    # a ref of a dataset type without dimensions
    ref0 = DatasetRef(DatasetType("nodims_ref", u.empty, "StructuredDataDict"), DataCoordinate.make_empty(u), run="some/run")
    roundtrips("DatasetRef", ref0, [
        ("simple", lambda x: DatasetRef.from_simple(x.to_simple(), universe=u)),
        ("json", lambda x: DatasetRef.from_json(x.to_json(), universe=u)),
        ("pickle", lambda x: pickle.loads(pickle.dumps(x))),
    ])
    # several refs read back inside ONE persistence context (its caches are shared): composites, their components and refs that
    # share a UUID, in every order
    try:
        parent_t = DatasetType("exp_like2", u.conform(["instrument", "visit"]), "ExposureF")
        parent = DatasetRef(parent_t, DataCoordinate.standardize(instrument="I", visit=1, universe=u), run="some/run")
        family = [parent, parent.makeComponentRef("wcs"), parent.makeComponentRef("image"), parent.makeComponentRef("wcs"),
                  DatasetRef(parent_t, DataCoordinate.standardize(instrument="I", visit=2, universe=u), run="some/run")]
    except Exception as e:
        family = []
        ctx.notes.append(f"component refs unavailable here: {type(e).__name__}")
    import itertools as _it

    orders = list(_it.permutations(range(len(family)), 3)) if family else []
    if ctx.quick():
        rng.shuffle(orders)
        orders = orders[:30]
    for form, enc, dec in (("simple", lambda x: x.to_simple(), lambda s_: DatasetRef.from_simple(s_, universe=u)),
                           ("json", lambda x: x.to_json(), lambda s_: DatasetRef.from_json(s_, universe=u))):
        for order in orders:
            seq = [family[i] for i in order]
            ctx.evaluations += 1
            ctx.count(f"ref-sequence-in-one-context:{form}")
            ctx.nontrivial.add(("ref-seq", form, order))

            def read_all(items):
                return [dec(enc(x)) for x in items]
            try:
                back = PersistenceContextVars().run(read_all, seq)
            except Exception as e:
                viol(f"reading {[str(x.datasetType.name) for x in seq]} ({form}) inside one persistence context raised {type(e).__name__}: {str(e)[:80]}",
                     f"ref-seq-raise:{form}:{order}", {"kind": "ref-sequence", "form": form, "order": list(order)})
                continue
            for x, y in zip(seq, back):
                if not (x == y and x.id == y.id and x.datasetType == y.datasetType and x.dataId == y.dataId and x.run == y.run):
                    viol(f"reading {[str(z.datasetType.name) for z in seq]} ({form}) inside one persistence context: {x} came back as {y}",
                         f"ref-seq:{form}:{order}", {"kind": "ref-sequence", "form": form, "order": list(order)})
                    break
    # timespans inside YAML / JSON documents
    from lsst.daf.butler.time_utils import TimeConverter

    MAX = TimeConverter().max_nsec
    for nsec in [(0, MAX), (5, 6), (1_000_000_123, 2_000_000_456), (MAX, 0), (0, 1_700_000_000_000_000_001)]:
        ts = Timespan(None, None, _nsec=nsec)
        ctx.nontrivial.add(("timespan", nsec))
        roundtrips("Timespan", ts, [
            ("yaml", lambda x: yaml.safe_load(yaml.dump({"t": x}))["t"]),
            ("json", lambda x: Timespan.model_validate_json(x.model_dump_json())),
            ("pickle", lambda x: pickle.loads(pickle.dumps(x))),
        ])


def replay(ctx, content):
    print("replay:", content.get("what"))
    run(ctx)
    return core.finish(ctx)
