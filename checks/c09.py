"""C09 — artifacts are deleted only when unreferenced, and only inside the datastore root.

Models: Model/Artifacts.lean (records / dataset_location / trash tables, the bridge's `preserved` set and
the datastore's fragment recount in emptyTrash) and Model/PathNorm.lean (default file template sanitising,
posixpath.normpath, Location's containment test); theorems in Props/C09.lean.
Tie: C — (a) seeded histories of put / ingest(copy, move, direct, shared file) / ingest_zip / pruneDatasets
(unstore, purge) / Datastore.trash / emptyTrash / removeRuns on a real Butler inside a sentinel area, the
same operations sent to the model; (b) hostile run names and data-ID strings through FileTemplate.format,
Butler.put and ingest, compared with the model's placement decision.
Oracle (model-free): the harness's own reference sets — an owned artifact exists iff some stored dataset
refers to it, every stored dataset reads back its content, files behind absolute URIs and everything else
outside the root is untouched (recursive listing of the sentinel area with content hashes).
"""
from __future__ import annotations

import hashlib
import os
import shutil

from vlib import core, repo
from vlib import arthist

LEVEL = "proof"
LEAN_TARGETS = ["ButlerModel.Props.C09", "driver"]


def run(ctx):
    ctx.rule = (
        "artifact histories: seeded histories of 10-28 operations over {put, ingest copy/move of one file for 1-3 datasets, "
        "direct ingest of an external file for 1-2 datasets, ingest_zip of 2-3 datasets, pruneDatasets(unstore) and "
        "pruneDatasets(purge) of 1-3 datasets chosen across artifacts, Datastore.trash without emptying, emptyTrash, removeRuns}; "
        "after every step: recursive listing (with content hashes) of the datastore root and of the sentinel area around it, "
        "Butler.get of every stored dataset; hostile names: a corpus plus seeded strings over {'/', '..', '.', ' ', '#', '%', "
        "letters} as run names and as data-ID values in directory and file positions, each through put, ingest(copy), get and "
        "prune; non-trivial = histories in which a shared artifact lost some but not all of its datasets"
    )
    ctx.assumptions = [
        "POSIX semantics of the local filesystem (no symlinks inside the scratch area)",
        "names are ASCII; S3/WebDAV resource paths are not executable here",
    ]
    with core.Lock():
        # T-tie: the recount loop of FileDatastore.emptyTrash (which artifacts still have a dataset that is not being trashed) is
        # translated from the working tree into Gen/TrashPy.lean; C09.Translated.recount_keeps_iff characterises it and
        # slowKeep_is_recount identifies the hand-written model's slowKeep with it
        import sys as _sys

        _sys.path.insert(0, os.path.join(core.VERIF, "translate"))
        try:
            import gen_trash

            gen_trash.generate(core.GEN_DIR)
        except Exception as e:
            ctx.broken.append(f"translation: FileDatastore.emptyTrash (recount): {type(e).__name__}: {e}")
        built = core.lean_build(ctx, LEAN_TARGETS)
        if built:
            core.lean_audit(ctx, ["ButlerModel.Props.C09"])
            if not ctx.quick():
                core.leanchecker(ctx, ["ButlerModel.Props.C09"])
    with repo.Scratch("verif-c09-") as tmp:
        trust_shared_witness(ctx, tmp)  # corpus: the recorded witness of C09-d runs first
        arthist.histories(ctx, built, tmp, mode="C09")
        arthist.histories(ctx, False, tmp, mode="C09", trust=True)
        hostile_names(ctx, built, tmp)


# ---------------------------------------------------------------------------------------------- hostile names
def trust_shared_witness(ctx, tmp):
    """Corpus (finding C09-d): a datastore in trust mode, one file ingested for two datasets (it is named after the first), the
    first dataset unstored and later purged: the file must stay as long as the second dataset is stored."""
    from lsst.daf.butler import Butler, Config, DatasetRef, DatasetType, FileDataset

    root = os.path.join(tmp, "trust-shared")
    Butler.makeRepo(root, config=Config({"datastore": {"trust_get_request": True}}))
    b = Butler.from_config(root, writeable=True, run="run1")
    b.registry.insertDimensionData("instrument", {"name": "I"})
    for i in (1, 2):
        b.registry.insertDimensionData("detector", {"instrument": "I", "id": i, "full_name": f"d{i}"})
    dt = DatasetType("dt", {"instrument", "detector"}, "StructuredDataDict", universe=b.dimensions)
    b.registry.registerDatasetType(dt)
    src = os.path.join(tmp, "trust-shared.yaml")
    with open(src, "w") as fh:
        fh.write("s: 12\n")
    r1, r2 = (DatasetRef(dt, b.registry.expandDataId(instrument="I", detector=i), run="run1") for i in (1, 2))
    b.ingest(FileDataset(path=src, refs=[r1, r2]), transfer="copy")
    os.remove(src)
    b.pruneDatasets([r1], unstore=True, disassociate=False, purge=False)
    b.pruneDatasets([r1], purge=True, unstore=True, disassociate=True)
    ctx.evaluations += 1
    ctx.count("corpus:trust-shared-file")
    try:
        ok = b.get(r2) == {"s": 12}
        err = None
    except Exception as e:
        ok, err = False, type(e).__name__
    if not ok:
        ctx.violations.append(core.Violation(
            what="trust mode: one file ingested for datasets (1, 2); after `unstore [1]` and `purge [1]` the file is gone although dataset 2, "
                 f"still stored, refers to it ({err})", key="trust-purge-of-unstored-deletes-shared-artifact",
            replay={"kind": "corpus", "ops": ["ingest-copy [1, 2] (one file)", "unstore [1]", "purge [1]", "get 2"]}))


def hexs(s):
    return s.encode().hex() if s else "-"


def hexl(l):
    return ",".join(hexs(x) for x in l) if l else "."


CORPUS_RUNS = ["..", "../out", "a/../../b", ".", "a b", "a#b", "x/./y", "/abs/run", "a/..", "..x", "a//b", "#", "a/#b", "a/../b", "./..",
               "a/b/../../..", "%2e%2e", ".. ", " ..", "a/ ../b", "..#", "a.b", "..../x"]
CORPUS_VALUES = ["..", ".", "a/b", "a b", "#x", "a#b", "../..", "x.y", "/", " ", "%"]


def gen_name(rng):
    parts = []
    for _ in range(rng.randint(1, 4)):
        parts.append(rng.choice(["..", ".", "a", "b", "x y", "#", "c#d", "", "..", "e.f", " ", "%41", "zz"]))
    s = "/".join(parts)
    if rng.random() < 0.15:
        s = "/" + s
    return s


def listing(top, skip=None):
    out = {}
    for dp, ds, fs in os.walk(top):
        if skip and os.path.abspath(dp).startswith(skip):
            ds[:] = []
            continue
        if skip:
            ds[:] = [d for d in ds if not os.path.abspath(os.path.join(dp, d)).startswith(skip)]
        for d in ds:
            out[os.path.relpath(os.path.join(dp, d), top) + "/"] = "dir"
        for f in fs:
            p = os.path.join(dp, f)
            with open(p, "rb") as fh:
                out[os.path.relpath(p, top)] = hashlib.sha1(fh.read()).hexdigest()[:10]
    return out


def hostile_names(ctx, model_ok, tmp):
    from lsst.daf.butler import Butler, DatasetRef, DatasetType, FileDataset

    rng = ctx.rng
    area = os.path.join(tmp, "area2")
    root = os.path.join(area, "x", "y", "repo")
    os.makedirs(os.path.join(area, "x", "y"))
    os.makedirs(os.path.join(area, "ext"))
    with open(os.path.join(area, "x", "sentinel.txt"), "w") as fh:
        fh.write("do not touch\n")
    b = repo.make_butler(root, run="base")
    b.registry.insertDimensionData("instrument", {"name": "I"})
    b.registry.insertDimensionData("detector", {"instrument": "I", "id": 1, "full_name": "d1"})
    b.registry.insertDimensionData("detector", {"instrument": "I", "id": 2, "full_name": "d2"})
    dt = DatasetType("dt", {"instrument", "detector"}, "StructuredDataDict", universe=b.dimensions)
    dtf = DatasetType("dtf", {"instrument", "physical_filter"}, "StructuredDataDict", universe=b.dimensions)
    b.registry.registerDatasetType(dt)
    b.registry.registerDatasetType(dtf)
    req, impl = [], []
    absroot = os.path.abspath(root)
    rootcomps = [c for c in os.path.realpath(root).split("/") if c]

    def viol(what, key, replay):
        ctx.violations.append(core.Violation(what=what, key=key, replay=replay))

    def outside():
        return listing(area, skip=absroot)

    def inside_files():
        return {k for k, v in listing(root).items() if v != "dir" and "sqlite" not in k and k != "butler.yaml"}

    n_gen = 100 if ctx.quick() else 1500
    # names that leave the root into a *sibling whose name starts like the root's* (prefix tests are not containment tests)
    rb = os.path.basename(root)
    siblings = [f"../{rb}_backup/r", f"../{rb}2/r", f"u/../../{rb}x/r", f"../{rb}/../{rb}.old/r", f"../{rb}"]
    runs = list(CORPUS_RUNS) + siblings + [gen_name(rng) for _ in range(n_gen)]
    seen_runs = set(b.registry.queryCollections())
    case = 0
    for run_name in runs:
        if not run_name or run_name in seen_runs:
            continue
        seen_runs.add(run_name)
        for how in ("put", "ingest"):
            case += 1
            before_out = outside()
            before_in = inside_files()
            ref = None
            err = None
            src = os.path.join(area, "ext", f"src{case}.yaml")
            with open(src, "w") as fh:
                fh.write(f"v: {case}\n")
            before_out = outside()
            try:
                b.registry.registerRun(run_name)
                if how == "put":
                    ref = b.put({"v": case}, dt, instrument="I", detector=1, run=run_name)
                else:
                    ref = DatasetRef(dt, {"instrument": "I", "detector": 1}, run=run_name)
                    b.ingest(FileDataset(path=src, refs=[ref]), transfer="copy")
            except Exception as e:
                err = e
                ref = None
            ctx.evaluations += 1
            ctx.count(f"hostile-run:{how}:{'refused' if err else 'accepted'}")
            after_out = outside()
            if after_out != before_out:
                new = sorted(set(after_out) - set(before_out))
                gone = sorted(set(before_out) - set(after_out))
                viol(f"{how} with run name {run_name!r} changed the area outside the datastore root: created {new} removed {gone}"
                     f" ({'then refused with ' + type(err).__name__ if err else 'accepted'})",
                     "hostile-run-creates-directories-outside-root" if (err and new and not gone and all(x.endswith('/') for x in new))
                     else f"outside:{how}:{run_name}", {"kind": "hostile-run", "run": run_name, "how": how, "created": new, "removed": gone})
                # tidy up so that the next case starts from the same surroundings
                for x in sorted(new, reverse=True):
                    p = os.path.join(area, x)
                    if x.endswith("/"):
                        shutil.rmtree(p, ignore_errors=True)
                    elif os.path.exists(p):
                        os.remove(p)
            # '%XX' sequences are re-interpreted by lsst.resources' URI parsing (outside daf_butler): such names are
            # checked against the filesystem oracle only, not against the placement model
            modelled = "%" not in run_name
            if modelled:
                req.append(f"path place {hexl(rootcomps)} {hexs(run_name)} {hexl(['dt'])} {hexl(['dt', 'I', 'd1'])}")
            else:
                ctx.count("hostile-run:not-modelled(%)")
            if ref is None:
                impl.append("refused") if modelled else None
                if inside_files() != before_in:
                    viol(f"refused {how} with run name {run_name!r} left files in the root: {sorted(inside_files() - before_in)}",
                         f"refused-leaves:{how}:{run_name}", {"kind": "hostile-run", "run": run_name, "how": how})
            else:
                uri = b.getURI(ref)
                rel = os.path.relpath(uri.ospath, absroot)
                if modelled:
                    impl.append("ok " + rel[:-len(".yaml")] if rel.endswith(".yaml") else "ok " + rel)
                ctx.nontrivial.add(run_name)
                problems = []
                if not os.path.abspath(uri.ospath).startswith(absroot + os.sep):
                    problems.append(f"artifact at {uri.ospath} is outside the root")
                try:
                    if b.get(ref) != {"v": case}:
                        problems.append("reads back different content")
                except Exception as e:
                    problems.append(f"cannot be read back ({type(e).__name__})")
                # a second dataset in the same run; then the first is pruned alone, then the second
                ref2 = None
                try:
                    ref2 = b.put({"v": -case}, dt, instrument="I", detector=2, run=run_name)
                    with_two = inside_files()
                    uri2 = b.getURI(ref2)
                except Exception as e:
                    problems.append(f"a second dataset cannot be stored in the run ({type(e).__name__})")
                try:
                    b.pruneDatasets([ref], purge=True, unstore=True, disassociate=True)
                except Exception as e:
                    problems.append(f"cannot be pruned ({type(e).__name__}: {str(e)[:80]})")
                if ref2 is not None:
                    rel1 = os.path.relpath(uri.ospath, absroot)
                    if rel1 in inside_files() and uri.ospath != uri2.ospath:
                        problems.append(f"its artifact {rel1} is still there after it was pruned while a sibling in the run stays")
                    try:
                        if b.get(ref2) != {"v": -case}:
                            problems.append("the sibling in the run reads back different content after the prune")
                    except Exception as e:
                        problems.append(f"the sibling in the run cannot be read after the prune ({type(e).__name__})")
                    try:
                        b.pruneDatasets([ref2], purge=True, unstore=True, disassociate=True)
                    except Exception as e:
                        problems.append(f"the sibling cannot be pruned ({type(e).__name__}: {str(e)[:80]})")
                if inside_files() != before_in:
                    problems.append(f"after pruning everything the root differs: +{sorted(inside_files() - before_in)} -{sorted(before_in - inside_files())}")
                if outside() != before_out:
                    problems.append("the prune changed something outside the root")
                if problems:
                    leak = all("still there" in x or "root differs: +" in x for x in problems) and "#" in run_name
                    viol(f"{how} with run name {run_name!r} -> {rel}: " + "; ".join(problems),
                         "hash-in-run-name-leaks-artifact" if leak else f"hostile:{how}:{run_name}",
                         {"kind": "hostile-run", "run": run_name, "how": how, "problems": problems})
                    for f_ in inside_files() - before_in:
                        os.remove(os.path.join(root, f_))
            os.remove(src)
            ctx.sample({"run": run_name, "how": how, "implementation": impl[-1]}, cap=6)

    # data-ID strings in directory and file positions: physical_filter names (with band), one run
    b.registry.registerRun("vals")
    if "." not in seen_runs:
        b.registry.registerRun(".")
    values = list(CORPUS_VALUES) + [gen_name(rng) for _ in range(15 if ctx.quick() else 400)]
    seen = set()
    for i, v in enumerate(values):
        if not v or v in seen:
            continue
        seen.add(v)
        band = rng.choice(["r", "..", v])
        vrun = rng.choice(["vals", "vals", "."])  # with run '.', two '..' values in directory position would leave the root
        before_out = outside()
        before_in = inside_files()
        err = None
        ref = None
        try:
            b.registry.insertDimensionData("physical_filter", {"instrument": "I", "name": v, "band": band})
            ref = b.put({"v": i}, dtf, instrument="I", physical_filter=v, run=vrun)
        except Exception as e:
            err = e
        ctx.evaluations += 1
        ctx.count(f"hostile-value:{'refused' if err else 'accepted'}")
        after_out = outside()
        if after_out != before_out:
            new = sorted(set(after_out) - set(before_out))
            viol(f"put with physical_filter {v!r}, band {band!r} changed the area outside the datastore root: created {new}"
                 f" ({'then refused with ' + type(err).__name__ if err else 'accepted'})",
                 "hostile-value-creates-directories-outside-root" if (err and new and all(x.endswith('/') for x in new)) else f"outside-value:{v}:{band}",
                 {"kind": "hostile-value", "physical_filter": v, "band": band, "created": new})
            for x in sorted(new, reverse=True):
                shutil.rmtree(os.path.join(area, x), ignore_errors=True)
        modelled = "%" not in v
        if modelled:
            req.append(f"path place {hexl(rootcomps)} {hexs(vrun)} {hexl(['dtf', band, v])} {hexl(['dtf', 'I', band, v])}")
        if ref is None:
            impl.append("refused") if modelled else None
        else:
            uri = b.getURI(ref)
            rel = os.path.relpath(uri.ospath, absroot)
            impl.append("ok " + rel[:-len(".yaml")]) if modelled else None
            problems = []
            if not os.path.abspath(uri.ospath).startswith(absroot + os.sep):
                problems.append(f"artifact at {uri.ospath} is outside the root")
            try:
                if b.get(ref) != {"v": i}:
                    problems.append("reads back different content")
            except Exception as e:
                problems.append(f"cannot be read back ({type(e).__name__})")
            try:
                b.pruneDatasets([ref], purge=True, unstore=True, disassociate=True)
            except Exception as e:
                problems.append(f"cannot be pruned ({type(e).__name__})")
            if inside_files() != before_in:
                problems.append("after the prune the root differs")
            if problems:
                viol(f"put with physical_filter {v!r}, band {band!r} -> {rel}: " + "; ".join(problems), f"hostile-value:{v}:{band}",
                     {"kind": "hostile-value", "physical_filter": v, "band": band, "problems": problems})
    if model_ok:
        got = core.driver(req)
        nd = 0
        for line, m, i in zip(req, got, impl):
            if m != i:
                nd += 1
                if nd <= 5:
                    ctx.broken.append(f"correspondence: `{line}` model={m} implementation={i}")
        ctx.extra["path_correspondence_lines"] = len(req)
        ctx.extra["path_correspondence_disagreements"] = nd


def replay(ctx, content):
    print("replay:", content.get("what"))
    for k in ("ops", "run", "how", "physical_filter", "band"):
        if k in content:
            print(f"{k}:", content[k])
    run(ctx)
    return core.finish(ctx)
