"""C01 — a stored dataset always reads back as exactly what was stored under it.

Model: Model/Store.lean (records: id -> path; files: path -> content; put overwrites whatever is at the path,
removal follows C09's rule; get resolves only through the record); theorems in Props/C01.lean
(get_refines_spec: with injective placement every history refines the plain map id -> content; the
collision witnesses; non-injectivity of the template's sanitising).
Tie: C — seeded histories on real repositories (file, in-memory and chained datastores): put of generated
payloads under several storage classes / formatters, ingest, transfer_from, associate, prune and removeRuns of
*other* datasets; the file-datastore histories are mirrored to the model with the real artifact paths.
Oracle (model-free): after every step Butler.get of every dataset that is still stored equals a deep copy of
the payload taken at put time, and registry.getDataset(id) still has the same dataset type, data ID and run.
"""
from __future__ import annotations

import copy
import math
import os

from vlib import core, repo

LEVEL = "proof"
LEAN_TARGETS = ["ButlerModel.Props.C01", "driver"]

STRINGS = ["", " ", "yes", "no", "null", "~", "1e3", "0x10", "1_000", "a: b", "- x", "#c", "a\nb", "é", "\t", "'", '"', "{}", "[]",
           "2001-01-01", "12:30:00", "NaN", ".inf", "true", "0", "007", "a b", "a_b", "a/b", "line1\n  line2\n", "x" * 200, "%s", "\\n", "&a", "*a",
           "!!python/object:os.system", "? k", "|", ">", "@", "`",
           # line-break-like and invisible code points, controls, astral plane
           "a\x85b", "a\u2028b", "a\u2029b", "\ufeffa", "a\xa0b", "a\rb", "a\r\nb", "\x7f", "\x1b[0m", "\U0001f600", "a\x0bb", "a\x0cb", "\x85"]
FILTERS = ["a b", "a_b", "a/b", "a.b", "A B", "ab", "a  b", "a__b", "x", "x ", " x", "r", "g",
           # names that share what precedes a '.', and names with '+', '&', '=' (they end up in zip member names and URI fragments)
           "g.v1", "g.v2", "g+r", "g r", "a&b", "a&c", "k=1", "a%41b", "aAb"]


def gen_scalar(rng):
    r = rng.random()
    if r < 0.3:
        return rng.choice([0, 1, -1, 2**31, -2**63, 10**30, 7])
    if r < 0.4:
        return rng.choice([True, False, None])
    if r < 0.55:
        return rng.choice([0.1, -0.0, 1e300, 2.5, float("inf"), 1e-320, 3.0])
    return rng.choice(STRINGS)


def gen_value(rng, depth):
    r = rng.random()
    if depth <= 0 or r < 0.4:
        return gen_scalar(rng)
    if r < 0.7:
        return [gen_value(rng, depth - 1) for _ in range(rng.randint(0, 3))]
    return gen_dict(rng, depth - 1)


def gen_dict(rng, depth):
    d = {}
    for _ in range(rng.randint(0, 4)):
        k = rng.choice(STRINGS + ["k1", "k2", "k3"]) if rng.random() < 0.9 else rng.choice([1, 0, True, None, 2.5])
        d[k] = gen_value(rng, depth)
    return d


def canon(x):
    """Structural form in which floats compare by repr (NaN, -0.0) and bool is not int."""
    if isinstance(x, bool) or x is None:
        return ("b", x)
    if isinstance(x, float):
        return ("f", repr(x))
    if isinstance(x, int):
        return ("i", x)
    if isinstance(x, str):
        return ("s", x)
    if isinstance(x, (list, tuple)):
        return (type(x).__name__, [canon(v) for v in x])
    if isinstance(x, dict):
        return ("d", sorted(((canon(k), canon(v)) for k, v in x.items()), key=repr))  # dict equality ignores order
    try:
        import numpy as np

        if isinstance(x, np.ndarray):
            return ("np", str(x.dtype), x.shape, x.tobytes())
    except Exception:
        pass
    return ("o", repr(x))


def run(ctx):
    ctx.rule = (
        "seeded histories of 10-24 operations on three repository configurations (FileDatastore; InMemoryDatastore; ChainedDatastore of "
        "in-memory + two file datastores) over {put of a generated payload under StructuredDataDict (YAML; StructuredDataList has no formatter in the default configuration), int / "
        "Timespan (JSON), NumpyArray (pickle); ingest(copy); transfer_from a second repository; associate; prune(unstore / purge) and "
        "removeRuns of other datasets; mutation of the caller's object after put}; payloads: nested dict/list/scalars to depth 3 with "
        "YAML/JSON edge-case strings, big ints, non-finite floats, non-string keys; data IDs: detectors and physical_filter names "
        "differing only in ' ', '/', '.', '_' and case; after every step every stored dataset is read back and its identity re-read; "
        "non-trivial = histories in which a dataset was read back after a removal or a colliding-spelling put of another"
    )
    ctx.assumptions = [
        "PyYAML / json / pickle are trusted carriers, exercised by the round-trip oracle, not modelled",
        "afw / astropy.table storage classes are not importable in this sandbox",
    ]
    with core.Lock():
        # T-tie: one iteration of FileTemplate.format's loop over the template fields (the `/` marker of the format specification,
        # blanks and slashes replaced in string values, value appended after the literal) is translated from the working tree into
        # Gen/TemplatePy.lean; C01.Translated.translated_writeField identifies it with the model's sanitisation
        import sys as _sys

        _sys.path.insert(0, os.path.join(core.VERIF, "translate"))
        try:
            import gen_template

            gen_template.generate(core.GEN_DIR)
        except Exception as e:
            ctx.broken.append(f"translation: FileTemplate.format (field value): {type(e).__name__}: {e}")
        built = core.lean_build(ctx, LEAN_TARGETS)
        if built:
            core.lean_audit(ctx, ["ButlerModel.Props.C01"])
            if not ctx.quick():
                core.leanchecker(ctx, ["ButlerModel.Props.C01"])
    with repo.Scratch("verif-c01-") as tmp:
        req, impl = [], []
        for cfgname in ("file", "inmem", "chained", "chained2"):
            histories(ctx, tmp, cfgname, req, impl)
        bulk_ingest(ctx, tmp)
        if built:
            got = core.driver(req)
            nd = 0
            for line, m, i in zip(req, got, impl):
                if m != i:
                    nd += 1
                    if nd <= 5:
                        ctx.broken.append(f"correspondence: `{line}` model={m} implementation={i}")
            ctx.extra["correspondence_lines"] = len(req)
            ctx.extra["correspondence_disagreements"] = nd


def bulk_ingest(ctx, tmp):
    """One file ingested for more than a thousand datasets (record lookups are cut into batches of 1000), the whole batch
    offered again (refused, nothing changes), then everything is still known and readable — in particular the datasets whose
    ids sit around the batch boundaries in sorted order."""
    from lsst.daf.butler import Butler, DatasetRef, DatasetType, FileDataset

    def viol(what, key, replay):
        ctx.violations.append(core.Violation(what=what, key=key, replay=replay))

    N = 1100 if ctx.quick() else 2300
    root = os.path.join(tmp, "bulk")
    Butler.makeRepo(root)
    b = Butler.from_config(root, writeable=True, run="bulk")
    b.registry.insertDimensionData("instrument", {"name": "K"})
    b.registry.insertDimensionData("detector", *[{"instrument": "K", "id": i, "full_name": f"k{i}"} for i in range(N)])
    dt = DatasetType("tbulk", {"instrument", "detector"}, "StructuredDataDict", universe=b.dimensions)
    b.registry.registerDatasetType(dt)
    p = os.path.join(tmp, "bulk.yaml")
    with open(p, "w") as fh:
        fh.write("bulk: 1\n")
    refs = [DatasetRef(dt, {"instrument": "K", "detector": i}, run="bulk") for i in range(N)]
    b.ingest(FileDataset(path=p, refs=refs), transfer="copy")
    by_id = sorted(refs, key=lambda r_: r_.id)
    edge = [by_id[i] for i in (0, 998, 999, 1000, 1001, N - 1) if i < N]
    try:
        b.ingest(FileDataset(path=p, refs=refs), transfer="copy")
        again = "accepted"
    except Exception as e:
        again = type(e).__name__
    ctx.evaluations += 1
    ctx.count("bulk-ingest")
    problems = []
    if again == "accepted":
        problems.append("the second ingest of the same datasets was accepted")
    known = b.stored_many(refs)
    n_unknown = sum(1 for r_ in refs if not known[r_])
    if n_unknown:
        problems.append(f"stored_many reports {n_unknown} of the {N} datasets as not stored")
    for r_ in edge:
        try:
            if b.get(r_) != {"bulk": 1}:
                problems.append(f"dataset at sorted position {by_id.index(r_)} reads back changed")
        except Exception as e:
            problems.append(f"dataset at sorted position {by_id.index(r_)} cannot be read ({type(e).__name__})")
            break
    if problems:
        viol(f"one file ingested for {N} datasets, the batch offered again ({again}): " + "; ".join(problems[:3]), "bulk-ingest",
             {"kind": "bulk-ingest", "n": N, "problems": problems})


def make_config(cfgname):
    from lsst.daf.butler import Config

    if cfgname == "file":
        return None
    c = Config()
    if cfgname == "inmem":
        c["datastore", "cls"] = "lsst.daf.butler.datastores.inMemoryDatastore.InMemoryDatastore"
        return c
    c["datastore", "cls"] = "lsst.daf.butler.datastores.chainedDatastore.ChainedDatastore"
    if cfgname == "chained2":
        # two file datastores; the second one does not accept dataset type tdict (datastore_constraints), so those
        # datasets live in the first child only and the children disagree about what they know
        fd = "lsst.daf.butler.datastores.fileDatastore.FileDatastore"
        c["datastore", "datastore_constraints"] = [{"constraints": {}}, {"constraints": {"reject": ["tdict"]}}]
        c["datastore", "datastores"] = [
            {"datastore": {"cls": fd, "name": "P", "root": "<butlerRoot>/p", "records": {"table": "p_records"}}},
            {"datastore": {"cls": fd, "name": "S", "root": "<butlerRoot>/s", "records": {"table": "s_records"}}},
        ]
        return c
    c["datastore", "datastores"] = [
        {"datastore": {"cls": "lsst.daf.butler.datastores.inMemoryDatastore.InMemoryDatastore"}},
        {"datastore": {"cls": "lsst.daf.butler.datastores.fileDatastore.FileDatastore", "root": "<butlerRoot>/fs1", "records": {"table": "fs1_records"}}},
        {"datastore": {"cls": "lsst.daf.butler.datastores.fileDatastore.FileDatastore", "root": "<butlerRoot>/fs2", "records": {"table": "fs2_records"}}},
    ]
    return c


def histories(ctx, tmp, cfgname, req, impl):
    import numpy as np
    from lsst.daf.butler import Butler, CollectionType, DatasetRef, DatasetType, FileDataset, Timespan

    rng = ctx.rng
    root = os.path.join(tmp, cfgname)
    Butler.makeRepo(root, config=make_config(cfgname))
    b = Butler.from_config(root, writeable=True, run="base")
    NDET = 800 if ctx.quick() else 40000

    def furnish(bb):
        bb.registry.insertDimensionData("instrument", {"name": "I"})
        # (detector names as cameras spell them: raft.sensor — the '.' must not make two detectors of one raft share a file)
        bb.registry.insertDimensionData("detector", *[{"instrument": "I", "id": i, "full_name": f"R{i // 4}.S{i % 4}" if i % 3 else f"d{i}"} for i in range(1, NDET)])
        for f in FILTERS:
            bb.registry.insertDimensionData("physical_filter", {"instrument": "I", "name": f, "band": "r"})
        bb.registry.insertDimensionData("visit_system", *[{"instrument": "I", "id": i, "name": f"vs{i}"} for i in range(4)])
        t = {}
        for name, dims, sc in (("tvs", {"instrument", "visit_system"}, "StructuredDataDict"), ("tdict", {"instrument", "detector"}, "StructuredDataDict"), ("tint", {"instrument", "detector"}, "int"), ("tspan", {"instrument", "detector"}, "Timespan"),
                               ("tnp", {"instrument", "detector"}, "NumpyArray"), ("tfilt", {"instrument", "physical_filter"}, "StructuredDataDict")):
            t[name] = DatasetType(name, dims, sc, universe=bb.dimensions)
            bb.registry.registerDatasetType(t[name])
        return t

    types = furnish(b)
    src_root = os.path.join(tmp, cfgname + "_src")
    Butler.makeRepo(src_root)
    src = Butler.from_config(src_root, writeable=True, run="srcrun")
    src_types = furnish(src)
    ext = os.path.join(tmp, cfgname + "_ext")
    os.makedirs(ext)

    def viol(what, key, replay):
        ctx.violations.append(core.Violation(what=what, key=key, replay=replay))

    def payload(tname):
        if tname in ("tdict", "tfilt"):
            return gen_dict(rng, 3)
        if tname == "tint":
            return rng.choice([0, -1, 2**40, 10**25, 7])
        if tname == "tspan":
            from astropy.time import Time

            t0 = Time("2020-01-01T00:00:00", scale="tai") + rng.randint(0, 1000) * 86400 * 1e-0 / 86400
            return rng.choice([Timespan(None, None), Timespan(t0, None), Timespan(None, t0), Timespan(t0, t0 + 1)])
        return np.array([rng.randint(-5, 5) for _ in range(rng.randint(0, 5))], dtype=rng.choice(["int64", "float32", "uint8"]).replace("uint8", "int16"))

    src_used_filters = set()
    n_hist = (16 if cfgname == "file" else (8 if cfgname == "chained2" else 6)) if ctx.quick() else 120
    det = 0
    pathno, contentno = {}, {}
    mirrored = cfgname == "file"
    gid = 0
    for h in range(n_hist):
        runs = [f"h{h}a", f"h{h}b"]
        for r_ in runs:
            b.registry.registerRun(r_)
        tag = f"tag{h}"
        b.registry.registerCollection(tag, CollectionType.TAGGED)
        # a chain that holds the second run: removing that run is refused as long as it is a member
        chain = f"chain{h}"
        b.registry.registerCollection(chain, CollectionType.CHAINED)
        b.registry.setCollectionChain(chain, [runs[1]])
        if mirrored:
            req.append("st new"), impl.append("ok")
        refs, truth, ident, mid = {}, {}, {}, {}
        live = set()
        used_filters = {}
        ops = []
        interesting = False
        # corpus: the recorded witness of C01-a runs first (three spellings of one physical_filter in one run)
        forced = ["a b", "a_b", "a/b"] if h == 0 else []
        if h == 2:
            # the recorded witness of C01-b: a percent escape in a data-ID value is decoded on the way to the artifact's URI
            forced = ["a%41b", "aAb"]
        if h == 1:
            # names that differ only after a '.', after an '&': distinct data IDs, distinct artifacts
            forced = ["g.v1", "g.v2", "a&b", "a&c"]
        for step in range(rng.randint(10, 24)):
            if det + 6 >= NDET:
                break
            r = rng.random() if not forced else 0.0
            stored = sorted(live)
            new = None
            if r < 0.42 or not stored:
                tname = rng.choice(["tdict", "tdict", "tdict", "tint", "tspan", "tnp", "tfilt", "tfilt", "tvs", "tvs"])
                run = rng.choice(runs)
                if forced:
                    tname, run = "tfilt", runs[0]
                if tname == "tvs":
                    # a dataset type with a required dimension the default file template has no field for: a file datastore
                    # either refuses it or keeps every data ID apart
                    free = [v for v in range(4) if ("vs", v, run) not in used_filters]
                    if not free:
                        continue
                    run = runs[0]
                    free = [v for v in range(4) if ("vs", v, run) not in used_filters] or free
                    did = {"instrument": "I", "visit_system": rng.choice(free)}
                    obj = gen_dict(rng, 2)
                    try:
                        ref = b.put(obj, types["tvs"], did, run=run)
                    except Exception as e:
                        ops.append(f"put tvs {did['visit_system']} {run[-1]} refused {type(e).__name__}")
                        ctx.count(f"{cfgname}:put-tvs-refused")
                        continue
                    used_filters[("vs", did["visit_system"], run)] = True
                    new = (ref, copy.deepcopy(obj), f"put tvs {did['visit_system']} {run[-1]}")
                elif tname == "tfilt":
                    free = [f for f in FILTERS if (f, run) not in used_filters and "%" not in f and f != "aAb"]  # (the percent pair is corpus only)
                    if not free:
                        continue
                    f = forced.pop(0) if forced else rng.choice(free)
                    did = {"instrument": "I", "physical_filter": f}
                    used_filters[(f, run)] = True
                else:
                    det += 1
                    did = {"instrument": "I", "detector": det}
                if tname == "tvs":
                    pass
                else:
                  obj = payload(tname)
                  keep = copy.deepcopy(obj)
                  ref = b.put(obj, types[tname], did, run=run)
                # the caller goes on using (and changing) its object.  Only for the file datastore: InMemoryDatastore keeps
                # and hands out the caller's own object by design (no serialisation), so "the object originally stored"
                # is that very object — value-snapshot semantics would demand more than C01 states.
                if cfgname != "file" or tname == "tvs":
                    pass
                elif isinstance(obj, dict):
                    obj["__mutated_after_put__"] = 1
                elif isinstance(obj, list):
                    obj.append("__mutated_after_put__")
                elif isinstance(obj, np.ndarray) and obj.size:
                    obj[0] = 99
                if tname != "tvs":
                    new = (ref, keep, f"put {tname} {did.get('physical_filter', did.get('detector'))!r} {run[-1]}")
            elif r < 0.52 and cfgname != "inmem":
                # one ingest call with several files, handed over in an order that is not the order of their data IDs
                import yaml

                run = rng.choice(runs)
                n_files = rng.choice([1, 2, 3])
                dets = list(range(det + 1, det + 1 + n_files))
                det += n_files
                order = dets[::-1] if rng.random() < 0.5 else rng.sample(dets, len(dets))
                fds, made = [], []
                for d_ in order:
                    obj = gen_dict(rng, 2)
                    obj["__file_of_detector__"] = d_
                    p = os.path.join(ext, f"in{d_}.yaml")
                    with open(p, "w") as fh:
                        yaml.dump(obj, fh)
                    ref = DatasetRef(types["tdict"], {"instrument": "I", "detector": d_}, run=run)
                    fds.append(FileDataset(path=p, refs=[ref]))
                    made.append((ref, copy.deepcopy(obj), p))
                b.ingest(*fds, transfer="copy")
                for ref, keep, p in made[:-1]:
                    os.remove(p)
                    gid += 1
                    refs[gid], truth[gid] = ref, keep
                    ident[gid] = (ref.datasetType.name, tuple(sorted(ref.dataId.required.items())), ref.run, ref.id)
                    live.add(gid)
                    mid[gid] = gid
                    if mirrored:
                        pp = b.getURI(ref).ospath
                        c = contentno.setdefault(repr(canon(keep)), len(contentno) + 1)
                        req.append(f"st put {gid} {pathno.setdefault(pp, len(pathno) + 1)} {c} {os.path.getsize(pp)}"), impl.append("ok")
                ref, keep, p = made[-1]
                os.remove(p)
                new = (ref, keep, f"ingest {order} {run[-1]}")
            elif r < 0.62 and cfgname != "inmem":
                det += 1
                obj = gen_dict(rng, 2)
                sref = src.put(obj, src_types["tdict"], instrument="I", detector=det)
                b.transfer_from(src, [sref], transfer="copy", register_dataset_types=False)
                new = (sref, copy.deepcopy(obj), f"transfer {det}")
            elif 0.62 <= r < 0.635 and cfgname != "inmem":
                # a file the source repository ingested in place (it does not own it), transferred here with transfer="auto" (this
                # repository then points at the same external file), and then removed from the source: the file is nobody's to delete
                import yaml

                det += 1
                obj = gen_dict(rng, 2)
                p = os.path.join(ext, f"direct{det}.yaml")
                with open(p, "w") as fh:
                    yaml.dump(obj, fh)
                sref = DatasetRef(src_types["tdict"], {"instrument": "I", "detector": det}, run="srcrun")
                src.ingest(FileDataset(path=p, refs=[sref]), transfer="direct")
                b.transfer_from(src, [sref], transfer="auto", register_dataset_types=False)
                src.pruneDatasets([sref], purge=True, unstore=True, disassociate=True)
                new = (sref, copy.deepcopy(obj), f"direct-transfer-then-removed-at-source {det}")
            elif 0.635 <= r < 0.66 and cfgname != "inmem":
                # ingesting another file for a dataset that is still stored: must be refused and change nothing
                import yaml

                cand = [i for i in stored if refs[i].datasetType.name == "tdict"]
                if not cand:
                    continue
                i = rng.choice(cand)
                p = os.path.join(ext, f"again{step}.yaml")
                with open(p, "w") as fh:
                    yaml.dump({"second": "writer"}, fh)
                try:
                    b.ingest(FileDataset(path=p, refs=[refs[i]]), transfer="copy")
                    ops.append(f"re-ingest {i} accepted")
                    viol(f"[{cfgname}] after {ops[-3:]}: a second ingest for stored dataset {i} was accepted",
                         f"reingest-accepted:{cfgname}", {"kind": "history", "config": cfgname, "ops": ops, "dataset": i})
                except Exception as e:
                    ops.append(f"re-ingest {i} refused {type(e).__name__}")
                if os.path.exists(p):
                    os.remove(p)
            elif r < 0.66:
                cand = [i for i in stored if refs[i].datasetType.name != "tfilt" or True]
                i = rng.choice(cand)
                try:
                    b.registry.associate(tag, [refs[i]])
                    ops.append(f"associate {i}")
                except Exception as e:
                    ops.append(f"associate {i} refused {type(e).__name__}")
            elif r < 0.70:
                # storing again under the resolved ref of a dataset that is still stored: must be refused and change nothing
                cand = [i for i in stored if refs[i].datasetType.name in ("tdict", "tfilt")]
                if not cand:
                    continue
                i = rng.choice(cand)
                try:
                    b.put({"second": "writer"}, refs[i])
                    ops.append(f"re-put {i} accepted")
                    viol(f"[{cfgname}] after {ops[-3:]}: a second put under the resolved ref of stored dataset {i} was accepted",
                         f"reput-accepted:{cfgname}", {"kind": "history", "config": cfgname, "ops": ops, "dataset": i})
                except Exception as e:
                    ops.append(f"re-put {i} refused {type(e).__name__}")
            elif r < 0.76 and cfgname != "inmem":
                # zip ingest: several datasets in one artifact
                k = rng.choice([2, 3])
                zr = []
                for _ in range(k):
                    det += 1
                    obj = gen_dict(rng, 2)
                    zr.append((src.put(obj, src_types["tdict"], instrument="I", detector=det, run="srcrun"), copy.deepcopy(obj)))
                free_f = [f for f in FILTERS if f not in src_used_filters and "%" not in f and f != "aAb"]
                if free_f and rng.random() < 0.6:
                    # ... and a dataset whose data ID (hence its member name inside the zip) has an awkward spelling
                    f = rng.choice(free_f)
                    src_used_filters.add(f)
                    obj = gen_dict(rng, 2)
                    zr.append((src.put(obj, src_types["tfilt"], instrument="I", physical_filter=f, run="srcrun"), copy.deepcopy(obj)))
                    rng.shuffle(zr)
                    k = len(zr)
                    ctx.count(f"{cfgname}:zip-member-with-filter-name")
                z = src.retrieve_artifacts_zip([x[0] for x in zr], ext)
                b.ingest_zip(z, transfer="copy")
                os.remove(z.ospath)
                for sref, keep in zr[:-1]:
                    gid += 1
                    refs[gid], truth[gid] = sref, keep
                    ident[gid] = (sref.datasetType.name, tuple(sorted(sref.dataId.required.items())), sref.run, sref.id)
                    live.add(gid)
                    mid[gid] = gid
                    if mirrored:
                        p = str(b.getURI(sref))
                        c = contentno.setdefault(repr(canon(keep)), len(contentno) + 1)
                        req.append(f"st put {gid} {pathno.setdefault(p, len(pathno) + 1)} {c} 0"), impl.append("ok")
                new = (zr[-1][0], zr[-1][1], f"ingest-zip {k}")
            elif r < 0.92:
                ids = rng.sample(stored, min(len(stored), rng.choice([1, 1, 2])))
                purge = rng.random() < 0.6
                if purge:
                    b.pruneDatasets([refs[i] for i in ids], purge=True, unstore=True, disassociate=True)
                else:
                    b.pruneDatasets([refs[i] for i in ids], unstore=True, disassociate=False, purge=False)
                live.difference_update(ids)
                for i in ids:
                    if mirrored:
                        req.append(f"st remove {mid[i]}"), impl.append("ok")
                    fkey = refs[i].dataId.get("physical_filter")
                ops.append(f"{'purge' if purge else 'unstore'} {ids}")
                interesting = interesting or bool(live)
            elif r > 0.96:
                # a removal that is refused as a whole (the run is a member of a chain): nothing may change, now or at a later
                # removal of something else
                try:
                    b.removeRuns([runs[1]], unstore=True)
                    ops.append("removeRuns-of-chained-run accepted")
                    ctx.broken.append("correspondence: removeRuns of a run that is a member of a CHAINED collection was accepted")
                    break
                except Exception as e:
                    ops.append(f"removeRuns-refused {type(e).__name__}")
            else:
                run = rng.choice(runs)
                if run == runs[1]:
                    b.registry.setCollectionChain(chain, [])
                ids = sorted(i for i in refs if refs[i].run == run and i in ident)
                b.removeRuns([run], unstore=True)
                b.registry.registerRun(run)
                if run == runs[1]:
                    b.registry.setCollectionChain(chain, [runs[1]])
                for i in ids:
                    if i in live and mirrored:
                        req.append(f"st remove {mid[i]}"), impl.append("ok")
                    ident.pop(i, None)
                live.difference_update(ids)
                used_filters = {k: v for k, v in used_filters.items() if k[1] != run}
                ops.append(f"removeRuns {run[-1]}")
                interesting = interesting or bool(live)
            if new is not None:
                ref, keep, text = new
                gid += 1
                i = gid
                refs[i], truth[i] = ref, keep
                ident[i] = (ref.datasetType.name, tuple(sorted(ref.dataId.required.items())), ref.run, ref.id)
                live.add(i)
                mid[i] = i
                ops.append(f"{text} -> {i}")
                if mirrored:
                    u = b.getURI(ref)
                    p = str(u) if u.fragment else u.ospath  # a zip member is its own "file": path#zip-path=member
                    c = contentno.setdefault(repr(canon(keep)), len(contentno) + 1)
                    req.append(f"st put {i} {pathno.setdefault(p, len(pathno) + 1)} {c} {0 if u.fragment else (os.path.getsize(p) if os.path.exists(p) else 0)}"), impl.append("ok")
            ctx.evaluations += 1
            ctx.count(f"{cfgname}:{ops[-1].split()[0]}")
            # ---------------------------------------------------------- read everything back
            for i in sorted(live):
                try:
                    got = b.get(refs[i])
                    ok = canon(got) == canon(truth[i])
                    shown = repr(got)[:80]
                    err = None
                except Exception as e:
                    ok, got, shown, err = False, None, f"{type(e).__name__}: {str(e)[:80]}", type(e).__name__
                if mirrored:
                    req.append(f"st get {mid[i]}")
                    impl.append("integrity" if err == "FileIntegrityError" else ("none" if err else str(contentno.get(repr(canon(got)), "unknown-content"))))
                if not ok:
                    # is it the documented weak spot: another dataset whose data ID is spelled alike sits at the same path?
                    twins = []
                    if cfgname != "inmem":
                        try:
                            mine = [str(u) for u in _uris(b, refs[i])]
                        except Exception:
                            mine = []
                        for j in refs:
                            if j == i or j not in ident or refs[j].datasetType != refs[i].datasetType:
                                continue
                            try:
                                # (a dataset that has been unstored has no URI to ask for: it cannot be the one sitting on the path)
                                if set(mine) & {str(u) for u in _uris(b, refs[j])}:
                                    twins.append(j)
                            except Exception:
                                continue
                    alike = bool(twins) and all(_alike(refs[i], refs[j]) for j in twins)
                    pct = bool(twins) and not alike and all(_alike(refs[i], refs[j], pct=True) for j in twins)
                    viol(f"[{cfgname}] after {ops[-3:]}: dataset {i} ({ident[i][0]} {dict(ident[i][1])} run {ident[i][2][-1]}) stored as "
                         f"{repr(truth[i])[:80]} reads back as {shown}" + (f"; dataset(s) {twins} occupy the same artifact path" if twins else ""),
                         "template-collision-space-slash-underscore" if alike else ("template-collision-percent-escape" if pct else f"readback:{cfgname}:{ops}"),
                         {"kind": "history", "config": cfgname, "ops": ops, "dataset": i})
                    live.discard(i)
                    break
                now = b.registry.getDataset(refs[i].id)
                if now is None or (now.datasetType.name, tuple(sorted(now.dataId.required.items())), now.run, now.id) != ident[i]:
                    viol(f"[{cfgname}] after {ops[-3:]}: dataset {i} changed identity: {ident[i]} -> {now}", f"identity:{cfgname}:{ops}",
                         {"kind": "history", "config": cfgname, "ops": ops, "dataset": i})
                    break
        if interesting:
            ctx.nontrivial.add((cfgname, tuple(ops)))
        ctx.sample({"config": cfgname, "ops": ops[:8]}, cap=3)
        # leave nothing behind
        b.registry.removeCollection(chain)
        b.removeRuns(runs, unstore=True)
        b.registry.removeCollection(tag)


def _uris(b, ref):
    primary, comps = b.getURIs(ref)
    return ([primary] if primary is not None else []) + list(comps.values())


def _alike(r1, r2, pct=False):
    def squash(v):
        v = str(v)
        if pct:
            import urllib.parse

            v = urllib.parse.unquote(v)
        return v.replace(" ", "_").replace("/", "_")

    d1, d2 = dict(r1.dataId.required), dict(r2.dataId.required)
    return r1.run == r2.run and d1 != d2 and {k: squash(v) for k, v in d1.items()} == {k: squash(v) for k, v in d2.items()}


def replay(ctx, content):
    print("replay:", content.get("what"))
    print("config:", content.get("config"), "ops:", content.get("ops"))
    run(ctx)
    return core.finish(ctx)
