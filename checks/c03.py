"""C03 — ordered collection search returns the first match of the flattened search path.

Model: Model/Chain.lean (chain rows with integer positions and the four edits, DFS flattening with
first-occurrence de-duplication, cycle check, find-first); theorems in Props/C03.lean.
Tie: C — histories on a real SQLite registry (nested chains, diamonds, every edit incl. invalid ones,
tagging); after every edit the `collection_chain` rows (positions!) and `getCollectionChain` are
compared with the model, then flattening and find-first through every query interface.
Oracle (model-free): the documented child order per edit and "first collection of the depth-first
flattened path that has a match", computed by the harness from its own dict of chain definitions.
"""
from __future__ import annotations

import os
import sqlite3

from vlib import core, repo

LEVEL = "proof"
LEAN_TARGETS = ["ButlerModel.Props.C03", "driver"]


def run(ctx):
    ctx.rule = (
        "seeded histories: 4 RUN + 2 TAGGED + 4 CHAINED collections, 8-16 chain edits (redefine/prepend/extend/remove, "
        "incl. repeats, unknown children, non-chain parents, self and nested cycles) interleaved with tagging; after "
        "every edit: chain rows with positions + getCollectionChain for every chain; at the end: flattening and "
        "find-first for every data ID over seeded search paths (length 1-4, repeats, nested chains) through "
        "Registry.findDataset / queryDatasets(findFirst) / queryCollections(flattenChains), Butler.find_dataset / "
        "query_datasets(find_first), inside and outside a caching context; non-trivial = histories whose final "
        "definitions contain a nested chain and at least one refused edit or a diamond"
    )
    ctx.assumptions = [
        "SQLite enforces the PRIMARY KEY (parent, position) of collection_chain",
        "16-bit overflow of `position` after very many prepends is not exercised (documented limitation upstream)",
    ]
    with core.Lock():
        # T-tie: _add_to_collection_chain and the two position functions are translated from the working tree into Gen/ChainPy.lean
        import sys as _sys

        _sys.path.insert(0, os.path.join(core.VERIF, "translate"))
        try:
            import gen_chain

            gen_chain.generate(core.GEN_DIR)
        except Exception as e:  # Untranslatable or anything else: the tie is broken, the search below still runs
            ctx.broken.append(f"translation: chain edits: {type(e).__name__}: {e}")
        built = core.lean_build(ctx, LEAN_TARGETS)
        if built:
            core.lean_audit(ctx, ["ButlerModel.Props.C03"])
            if not ctx.quick():
                core.leanchecker(ctx, ["ButlerModel.Props.C03"])
    with repo.Scratch("verif-c03-") as tmp:
        correspondence(ctx, built, tmp)


def dedup(xs):
    out = []
    for x in xs:
        if x not in out:
            out.append(x)
    return out


def correspondence(ctx, model_ok, tmp):
    from lsst.daf.butler import CollectionType, DatasetType
    from lsst.daf.butler.registry import CollectionTypeError, MissingCollectionError
    from lsst.daf.butler._exceptions import CollectionCycleError

    rng = ctx.rng
    root = os.path.join(tmp, "r")
    b = repo.make_butler(root)
    repo.basic_dimensions(b, detectors=(1, 2, 3, 4))
    # a second instrument whose datasets share runs and detector numbers with the first: lookups pinned to instrument I must
    # not be disturbed by them (collections that hold a dataset type for several governor values)
    repo.basic_dimensions(b, instrument="J", detectors=(1, 2, 3, 4))
    reg = b.registry
    dt = DatasetType("dt", {"instrument", "detector"}, "StructuredDataDict", universe=b.dimensions)
    reg.registerDatasetType(dt)
    # a dataset type without dimensions (like "packages"): every match falls into one single group
    dt0 = DatasetType("dt0", set(), "StructuredDataDict", universe=b.dimensions)
    reg.registerDatasetType(dt0)
    KEYS = [1, 2, 3, 4]
    req, impl = [], []
    n_hist = 25 if ctx.quick() else 250

    def viol(what, key, replay):
        ctx.violations.append(core.Violation(what=what, key=key, replay=replay))

    poisoned = False
    for h in range(n_hist):
        names = {}  # id -> name
        kinds = {}
        req.append("ch new")
        impl.append("ok")
        cid = 0
        for kind, n in (("R", 4), ("T", 2), ("C", 4)):
            for _ in range(n):
                nm = f"{kind.lower()}{cid}_{h}"
                t = {"R": CollectionType.RUN, "T": CollectionType.TAGGED, "C": CollectionType.CHAINED}[kind]
                reg.registerCollection(nm, t)
                names[cid], kinds[cid] = nm, kind
                req.append(f"ch coll {cid} {kind}")
                impl.append("ok")
                cid += 1
        GHOST = 99  # never registered
        runs = [c for c in kinds if kinds[c] == "R"]
        tagged = [c for c in kinds if kinds[c] == "T"]
        chains = [c for c in kinds if kinds[c] == "C"]
        # datasets: each run gets a random subset of the data IDs
        ds = []  # (ds index) -> (ref, key, run)
        contents = {c: {} for c in kinds}  # coll -> key -> ds index
        for rcoll in runs:
            for k in KEYS:
                if rng.random() < 0.55:
                    (ref,) = reg.insertDatasets(dt, [{"instrument": "I", "detector": k}], run=names[rcoll])
                    ds.append((ref, k, rcoll))
                    contents[rcoll][k] = len(ds) - 1
                    req.append(f"ch tag {rcoll} {k} {len(ds) - 1}")
                    impl.append("ok")
                if rng.random() < 0.4:
                    reg.insertDatasets(dt, [{"instrument": "J", "detector": k}], run=names[rcoll])  # noise of the other instrument
        # the dimensionless dataset goes into a random subset of the runs, in an order that is not the order of their names
        contents0 = {}
        for rcoll in rng.sample(runs, len(runs)):
            if rng.random() < 0.6:
                (ref0,) = reg.insertDatasets(dt0, [{}], run=names[rcoll])
                contents0[rcoll] = ref0.id
        if contents0 and tagged and rng.random() < 0.5:
            src0 = rng.choice(sorted(contents0))
            reg.associate(names[tagged[0]], [reg.getDataset(contents0[src0])])
            contents0[tagged[0]] = contents0[src0]
        for t in tagged:
            for k in KEYS:
                cands = [i for i, (_, kk, _) in enumerate(ds) if kk == k]
                if cands and rng.random() < 0.5:
                    i = rng.choice(cands)
                    reg.associate(names[t], [ds[i][0]])
                    contents[t][k] = i
                    req.append(f"ch tag {t} {k} {i}")
                    impl.append("ok")
        id_of = {ref.id: i for i, (ref, _, _) in enumerate(ds)}
        chain_def = {c: [] for c in chains}  # oracle
        ops_log = []
        flags = set()
        con = sqlite3.connect(os.path.join(root, "gen3.sqlite3"))

        def reach(c, seen=None):
            out = []
            for k in chain_def.get(c, []):
                out.append(k)
                if k in chain_def:
                    out += reach(k)
            return out

        # one history in three edits its chains inside a caching context whose cache already holds every chain record (as
        # Butler.import_ does): edits, cycle checks and lookups in that context must see each edit at once
        import contextlib

        edit_ctx = contextlib.ExitStack()
        in_cache = False
        if rng.random() < 0.34:
            in_cache = True
            edit_ctx.enter_context(reg.caching_context())
            for c in chains:
                reg.getCollectionChain(names[c])
            reg.queryCollections([names[c] for c in chains], flattenChains=True)
            ops_log.append(("inside-caching-context",))
            ctx.count("history-edited-inside-caching-context")
        for step in range(rng.randint(8, 16)):
            op = rng.choice(["redefine", "prepend", "extend", "extend", "prepend", "remove"])
            p = rng.choice(chains) if rng.random() < 0.92 else rng.choice(runs + tagged + [GHOST])
            pool = runs + tagged + chains
            n = rng.choice([1, 1, 2, 2, 3, 4])
            kids = [rng.choice(pool) for _ in range(n)]
            if rng.random() < 0.05:
                kids.append(GHOST)
            if rng.random() < 0.06:
                kids = []
            if in_cache and op != "redefine" and rng.random() < 0.7:
                op = "redefine"
            ops_log.append((op, p, kids))
            if in_cache and op != "redefine":
                # the collections interface refuses to edit a chain while a caching context is active (RuntimeError, by design);
                # nothing may change.  Registry.setCollectionChain is the edit that is allowed there.
                try:
                    {"prepend": b.collections.prepend_chain, "extend": b.collections.extend_chain,
                     "remove": b.collections.remove_from_chain}[op](names.get(p, "ghost_parent"), [names.get(k, "ghost_child") for k in kids])
                    out = "ok"
                except RuntimeError:
                    out = "refused-in-caching-context"
                except Exception as e:
                    out = f"err {type(e).__name__}"
                ctx.count("in-cache:" + out.split()[0])
                ctx.evaluations += 1
                if out == "ok":
                    viol(f"{op}_chain({p}, {kids}) inside a caching context -> accepted; the interface documents a refusal there",
                         f"edit-in-cache:{ops_log}", {"kind": "history", "ops": ops_log, "failing_step": step})
                    break
                key_of = {nm: k for k, nm in names.items()}
                for c in chains:
                    got = [key_of[nm] for nm in reg.getCollectionChain(names[c])]
                    if got != chain_def[c]:
                        viol(f"after the refused {ops_log[-1]}: getCollectionChain({c}) = {got}, definition is {chain_def[c]}",
                             f"children:{ops_log}", {"kind": "history", "ops": ops_log, "chain": c, "got": got, "want": chain_def[c]})
                continue
            # ---- oracle verdict (documented behaviour)
            want_err = None
            if any(k == GHOST for k in kids):
                want_err = "MissingCollectionError"
            elif op != "remove" and p in chain_def and any(k == p or (k in chain_def and p in reach(k)) for k in kids):
                want_err = "CollectionCycleError"
            elif p == GHOST:
                want_err = "MissingCollectionError"
            elif kinds.get(p) != "C":
                want_err = "CollectionTypeError"
            fn = {
                "redefine": (lambda pn_, kn_: reg.setCollectionChain(pn_, kn_)) if in_cache else b.collections.redefine_chain,
                "prepend": b.collections.prepend_chain,
                "extend": b.collections.extend_chain, "remove": b.collections.remove_from_chain,
            }[op]
            pname = names.get(p, "ghost_parent")
            knames = [names.get(k, "ghost_child") for k in kids]
            try:
                fn(pname, knames)
                out = "ok"
            except CollectionCycleError:
                out = "err CollectionCycleError"
            except MissingCollectionError:
                out = "err MissingCollectionError"
            except CollectionTypeError:
                out = "err CollectionTypeError"
            except Exception as e:
                out = f"err INTERNAL:{type(e).__name__}"
            req.append(f"ch {op} {p} " + (",".join(map(str, kids)) or "-"))
            impl.append(out)
            ctx.evaluations += 1
            ctx.count(op)
            if out != "ok":
                flags.add("refused")
                ctx.count("refused:" + out.split()[-1])
            if want_err is None:
                old = chain_def[p]
                new = dedup(kids)
                chain_def[p] = {
                    "redefine": new,
                    "prepend": new + [c for c in old if c not in new],
                    "extend": [c for c in old if c not in new] + new,
                    "remove": [c for c in old if c not in new],
                }[op]
            if (want_err is None) != (out == "ok") or (want_err == "CollectionCycleError" and out != "err CollectionCycleError"):
                viol(f"{op}_chain({p}, {kids}) -> {out}, documented outcome: {want_err or 'ok'}", f"edit:{ops_log}",
                     {"kind": "history", "ops": ops_log, "failing_step": step})
                if want_err == "CollectionCycleError" and out == "ok":
                    # the repository now holds a cyclic chain: reading it back or flattening it may never return
                    poisoned = True
                    break
            # ---- observe every chain: rows with positions, and getCollectionChain
            key_of = {nm: k for k, nm in names.items()}
            for c in chains:
                rows = con.execute(
                    "SELECT cc.position, ch.name FROM collection_chain cc JOIN collection pa ON pa.collection_id = cc.parent "
                    "JOIN collection ch ON ch.collection_id = cc.child WHERE pa.name = ? ORDER BY cc.position", (names[c],)
                ).fetchall()
                req.append(f"ch rows {c}")
                impl.append(";".join(f"{pos}:{key_of[nm]}" for pos, nm in rows) or "-")
                got = [key_of[nm] for nm in reg.getCollectionChain(names[c])]
                req.append(f"ch children {c}")
                impl.append(",".join(map(str, got)) or "-")
                if got != chain_def[c]:
                    viol(f"after {ops_log[-1]}: getCollectionChain({c}) = {got}, documented child order {chain_def[c]}",
                         f"children:{ops_log}", {"kind": "history", "ops": ops_log, "chain": c, "got": got, "want": chain_def[c]})
        con.close()
        edit_ctx.close()
        if poisoned:
            break

        # ---- flattening and find-first
        def flat(path):
            out = []

            def go(c):
                if c in chain_def:
                    for k in chain_def[c]:
                        go(k)
                else:
                    out.append(c)

            for c in path:
                go(c)
            return dedup(out)

        nested = any(k in chain_def for c in chain_def for k in chain_def[c])
        diamond = any(len(flat([c])) < len([x for x in reach(c) if x not in chain_def]) for c in chain_def)
        if nested and ("refused" in flags or diamond):
            ctx.nontrivial.add(repr(ops_log))
        ctx.sample({"ops": ops_log, "final": chain_def}, cap=3)
        allc = runs + tagged + chains
        paths = [[c] for c in chains]
        for _ in range(10 if ctx.quick() else 25):
            paths.append([rng.choice(allc) for _ in range(rng.randint(1, 4))])
        for path in paths:
            pn = [names[c] for c in path]
            fl = flat(path)
            penc = ",".join(map(str, path))
            got = [key_of[nm] for nm in reg.queryCollections(pn, flattenChains=True)]
            req.append(f"ch flatten {penc}")
            impl.append(",".join(map(str, got)) or "-")
            ctx.evaluations += 1
            if got != fl:
                viol(f"queryCollections({path}, flattenChains=True) = {got}, depth-first first-occurrence order is {fl}",
                     f"flatten:{ops_log}:{path}", {"kind": "history", "ops": ops_log, "path": path, "got": got, "want": fl})
            # the dimensionless dataset type: first collection of the flattened path that holds it
            want0 = next((contents0[c] for c in fl if c in contents0), None)

            def probe0():
                g0 = {}
                r_ = reg.findDataset(dt0, collections=pn)
                g0["Registry.findDataset"] = None if r_ is None else r_.id
                r_ = b.find_dataset(dt0, collections=pn)
                g0["Butler.find_dataset"] = None if r_ is None else r_.id
                try:
                    rows0 = list(reg.queryDatasets(dt0, collections=pn, findFirst=True))
                    g0["Registry.queryDatasets(findFirst)"] = [x.id for x in rows0][0] if len(rows0) == 1 else (None if not rows0 else f"{len(rows0)} rows")
                    rows0 = b.query_datasets(dt0, collections=pn, find_first=True, explain=False)
                    g0["Butler.query_datasets(find_first)"] = [x.id for x in rows0][0] if len(rows0) == 1 else (None if not rows0 else f"{len(rows0)} rows")
                except Exception as e:
                    g0["query"] = f"{type(e).__name__}: {str(e)[:80]}"
                return g0

            got0 = probe0()
            # ... and the same inside ONE caching context in which the other dataset type was looked up first, collection by collection
            # (what the context caches about a collection while answering for one dataset type must not hide another type in it)
            with reg.caching_context():
                for nm_ in pn:
                    try:
                        reg.findDataset(dt, instrument="I", detector=KEYS[0], collections=[nm_])
                    except Exception:
                        pass
                got0.update({k_ + " [inside a caching context, after lookups of the other type]": v_ for k_, v_ in probe0().items()})
            ctx.evaluations += 1
            ctx.count("dimensionless-find-first" + (":match" if want0 else ""))
            for api, v in got0.items():
                if v != want0:
                    holders = [c for c in fl if c in contents0]
                    viol(f"{api}(dimensionless dataset type, collections={path}) returns the dataset of {[c for c in contents0 if contents0[c] == v] or v}, "
                         f"the first collection of the flattened path {fl} that holds one is {holders[:1]}", f"find0:{ops_log}:{path}:{api}",
                         {"kind": "history", "ops": ops_log, "path": path, "api": api})
            want_all = {}
            for k in KEYS:
                want_all[k] = next((contents[c][k] for c in fl if k in contents[c]), None)
            for cached in (False, True):
                cm = reg.caching_context() if cached else _null()
                with cm:
                    results = {}
                    for k in KEYS:
                        outs = {}
                        r1 = reg.findDataset(dt, instrument="I", detector=k, collections=pn)
                        outs["Registry.findDataset"] = None if r1 is None else id_of[r1.id]
                        r2 = b.find_dataset(dt, instrument="I", detector=k, collections=pn)
                        outs["Butler.find_dataset"] = None if r2 is None else id_of[r2.id]
                        results[k] = outs
                    try:
                        q1 = {r.dataId["detector"]: id_of[r.id] for r in reg.queryDatasets(dt, collections=pn, findFirst=True, instrument="I")}
                    except Exception as e:
                        q1 = f"{type(e).__name__}"
                    try:
                        # with a plain governor constraint, or with a constraint that brings in a dimension outside the dataset
                        # type's own (every detector joins the one physical filter, so the answer is the same)
                        extra = rng.random() < 0.5
                        q2l = b.query_datasets(dt, collections=pn, find_first=True, explain=False, instrument="I",
                                               where="physical_filter = 'f'" if extra else "")
                        q2 = {r.dataId["detector"]: id_of[r.id] for r in q2l}
                        dupes = len(q2l) != len(q2)
                    except Exception as e:
                        q2, dupes = f"{type(e).__name__}", False
                for k in KEYS:
                    results[k]["Registry.queryDatasets(findFirst)"] = q1.get(k) if isinstance(q1, dict) else q1
                    results[k]["Butler.query_datasets(find_first)"] = q2.get(k) if isinstance(q2, dict) else q2
                    ctx.evaluations += 1
                    for api, v in results[k].items():
                        if v != want_all[k]:
                            viol(f"{api}(detector={k}, collections={path}{', cached' if cached else ''}) = {v}, first match of the "
                                 f"flattened path {fl} is {want_all[k]}", f"find:{ops_log}:{path}:{k}:{api}",
                                 {"kind": "history", "ops": ops_log, "path": path, "key": k, "api": api, "got": v, "want": want_all[k]})
                    if not cached:
                        req.append(f"ch find {k} {penc}")
                        v = results[k]["Registry.findDataset"]
                        impl.append("none" if v is None else str(v))
                if dupes:
                    viol(f"Butler.query_datasets(find_first) over {path} returned the same data ID twice", f"dupes:{ops_log}:{path}",
                         {"kind": "history", "ops": ops_log, "path": path})
            # chain definitions read inside a caching context, after a flattening query has filled the cache
            with reg.caching_context():
                reg.queryCollections(pn, flattenChains=True)
                for c in chains:
                    gotc = [key_of[nm] for nm in reg.getCollectionChain(names[c])]
                    ctx.evaluations += 1
                    if gotc != chain_def[c]:
                        viol(f"inside a caching context after flattening {path}: getCollectionChain({c}) = {gotc}, definition is {chain_def[c]}",
                             "cached-chain-children-duplicated" if sorted(set(gotc)) == sorted(set(chain_def[c])) and len(gotc) > len(chain_def[c])
                             else f"cached-children:{ops_log}:{path}:{c}",
                             {"kind": "history", "ops": ops_log, "path": path, "chain": c, "got": gotc, "want": chain_def[c]})
            # no-match collections never change the answer
            empties = [c for c in allc if c not in chain_def and not contents[c]]
            if empties:
                ins = rng.randrange(len(path) + 1)
                path2 = path[:ins] + [rng.choice(empties)] + path[ins:]
                for k in KEYS:
                    r = reg.findDataset(dt, instrument="I", detector=k, collections=[names[c] for c in path2])
                    v = None if r is None else id_of[r.id]
                    ctx.evaluations += 1
                    if v != want_all[k]:
                        viol(f"adding the empty collection to {path} -> {path2} changes findDataset(detector={k}) from {want_all[k]} to {v}",
                             f"nomatch:{ops_log}:{path2}:{k}", {"kind": "history", "ops": ops_log, "path": path2, "key": k})

    # ---- search paths that mix a CALIBRATION collection with runs: first match in path order, through the legacy
    # queryDataIds(...).findDatasets(findFirst=True) as well (it ranks the collections itself)
    from lsst.daf.butler import Timespan

    dtc = DatasetType("dtc", {"instrument", "detector"}, "StructuredDataDict", universe=b.dimensions, isCalibration=True)
    reg.registerDatasetType(dtc)
    for nm in ("k_r0", "k_r1", "k_r2"):
        reg.registerCollection(nm, CollectionType.RUN)
    reg.registerCollection("k_cal", CollectionType.CALIBRATION)
    reg.registerCollection("k_chain", CollectionType.CHAINED)
    (c1,) = reg.insertDatasets(dtc, [{"instrument": "I", "detector": 1}], run="k_r1")
    (c2,) = reg.insertDatasets(dtc, [{"instrument": "I", "detector": 1}], run="k_r2")
    reg.certify("k_cal", [c2], Timespan(None, None))
    holder = {"k_r1": c1.id, "k_r2": c2.id, "k_cal": c2.id}
    for path in (["k_r0", "k_r1", "k_cal"], ["k_r0", "k_cal", "k_r1"], ["k_cal", "k_r1"], ["k_r1", "k_cal"], ["k_r0", "k_r2", "k_r1", "k_cal"]):
        want_c = next(holder[c_] for c_ in path if c_ in holder)
        reg.setCollectionChain("k_chain", path)
        for spelled, colls in (("path", path), ("chain", ["k_chain"])):
            got_c = {}
            try:
                rows_ = list(reg.queryDataIds(["instrument", "detector"], instrument="I", detector=1).findDatasets(dtc, collections=colls, findFirst=True))
                got_c["Registry.queryDataIds(...).findDatasets(findFirst)"] = rows_[0].id if len(rows_) == 1 else f"{len(rows_)} rows"
            except Exception as e:
                got_c["Registry.queryDataIds(...).findDatasets(findFirst)"] = f"{type(e).__name__}"
            try:
                r_ = reg.findDataset(dtc, instrument="I", detector=1, collections=colls, timespan=Timespan(None, None))
                got_c["Registry.findDataset"] = None if r_ is None else r_.id
            except Exception as e:
                got_c["Registry.findDataset"] = f"{type(e).__name__}"
            ctx.evaluations += 1
            ctx.count("calibration-in-search-path")
            for api, v in got_c.items():
                if v != want_c:
                    viol(f"{api} over the {spelled} {path} (a CALIBRATION collection among runs) returns {[k_ for k_, i_ in holder.items() if i_ == v] or v}, "
                         f"the first collection of the path with a match holds {[k_ for k_, i_ in holder.items() if i_ == want_c]}",
                         f"calib-path:{api}:{spelled}:{path}", {"kind": "calib-path", "path": path, "api": api})
    if model_ok:
        got = core.driver(req)
        nd = 0
        for line, m, i in zip(req, got, impl):
            if m != i:
                nd += 1
                if nd <= 5:
                    ctx.broken.append(f"correspondence: `{line}` model={m} implementation={i}")
        ctx.extra["correspondence_lines"] = len(req)
        ctx.extra["correspondence_disagreements"] = nd
    else:
        ctx.notes.append("model not built: correspondence skipped, implementation searched with the oracle only")


class _null:
    def __enter__(self):
        return self

    def __exit__(self, *a):
        return False


def replay(ctx, content):
    print("replay:", content.get("what"))
    print("ops:", content.get("ops"))
    run(ctx)
    return core.finish(ctx)
