"""C04 — validity ranges never overlap; decertify removes exactly the requested range.

Model: Model/Calib.lean (certify / decertify / removeDatasets cascade / timespan lookup) over the
*generated* Timespan operations; theorems in Props/C04.lean.
Tie: T (Timespan ops regenerated from source) + C (histories on a real SQLite registry; after every
operation the full association table and a set of lookups are compared with the model).
Oracle (model-free): a pointwise interval map instant -> set of datasets kept by the harness.
"""
from __future__ import annotations

import os
import sys

from vlib import core, repo

LEVEL = "proof"
LEAN_TARGETS = ["ButlerModel.Props.C04", "driver"]


def gen(ctx):
    sys.path.insert(0, os.path.join(core.VERIF, "translate"))
    import gen_timespan
    try:
        return gen_timespan.generate(core.GEN_DIR)
    except Exception as e:
        ctx.broken.append(f"translation: {type(e).__name__}: {e}")
        return None


def run(ctx):
    ctx.rule = (
        "seeded histories (6-14 ops) of certify / decertify / removeDatasets on a fresh CALIBRATION collection of a real "
        "SQLite registry; timespan endpoints from an 8-point grid incl. unbounded, adjacent, 1 ns and the empty timespan; "
        "batches of 1-3 datasets incl. repeated data IDs and repeated refs; decertify with dataIds None / [] / subsets; "
        "after every op the association table and 12 lookups are compared; non-trivial = distinct histories with at "
        "least one accepted and one refused certify or a decertify that splits a range"
    )
    ctx.assumptions = [
        "SQLite executes the overlap SELECT / DELETE / INSERT of certify/decertify atomically inside the savepoint",
        "PostgreSQL's exclusion-constraint branch is not executable here (modelled as 'refuse on any overlap')",
    ]
    with core.Lock():
        ok = gen(ctx) is not None
        # T-tie: the Python half of decertify (rows to delete, pieces to insert) is translated into Gen/DecertifyPy.lean;
        # C04.Translated.translated_decertify identifies it with Calib.decertify
        try:
            import gen_decertify

            gen_decertify.generate(core.GEN_DIR)
        except Exception as e:  # Untranslatable or anything else: the tie is broken, the search below still runs
            ctx.broken.append(f"translation: decertify: {type(e).__name__}: {e}")
        built = ok and core.lean_build(ctx, LEAN_TARGETS)
        if built:
            core.lean_audit(ctx, ["ButlerModel.Props.C04"])
            if not ctx.quick():
                core.leanchecker(ctx, ["ButlerModel.Props.C04"])
    with repo.Scratch("verif-c04-") as tmp:
        correspondence(ctx, built, tmp)


def correspondence(ctx, model_ok, tmp):
    from lsst.daf.butler import CalibrationLookupError, CollectionType, DatasetType, Timespan
    from lsst.daf.butler.registry import ConflictingDefinitionError
    from lsst.daf.butler.time_utils import TimeConverter

    rng = ctx.rng
    MAX = TimeConverter().max_nsec
    grid = [0, 10, 20, 21, 30, 40, 50, MAX]
    P = sorted({p for g in grid for p in (g - 1, g, g + 1) if 0 <= p < MAX})
    b = repo.make_butler(os.path.join(tmp, "r"))
    repo.basic_dimensions(b)
    reg = b.registry
    dt = DatasetType("bias", {"instrument", "detector"}, "StructuredDataDict", universe=b.dimensions, isCalibration=True)
    reg.registerDatasetType(dt)
    # a second calibration dataset type with the same dimensions: its validity ranges live in the same per-dimensions table
    # and must be invisible to everything that is done to the first
    dt2 = DatasetType("dark", {"instrument", "detector"}, "StructuredDataDict", universe=b.dimensions, isCalibration=True)
    reg.registerDatasetType(dt2)
    KEYS = [1, 2, 3]
    RUNS = ["r1", "r2", "r3", "r4"]
    # observation days whose timespans sit on the grid: a data ID that names one carries a timespan of its own
    DAYS = {1: (10, 20), 2: (20, 30), 3: (21, 40), 4: (0, 10)}
    for d_, (x_, y_) in DAYS.items():
        reg.insertDimensionData("day_obs", {"instrument": "I", "id": d_, "timespan": Timespan(None, None, _nsec=(x_, y_))})
    from lsst.daf.butler import DatasetNotFoundError
    tconv = TimeConverter()

    def mk(bb, ee):
        return Timespan(None, None, _nsec=(bb, ee))

    def rand_ts():
        r = rng.random()
        if r < 0.07:
            return Timespan.makeEmpty()
        if r < 0.17:
            x = rng.choice(grid[:-1])
            return mk(x, x + 1)
        i, j = sorted(rng.sample(range(len(grid)), 2))
        return mk(grid[i], grid[j])

    def enc_ts(t):
        return f"{t.nsec[0]},{t.nsec[1]}"

    req, impl = [], []
    n_hist = 40 if ctx.quick() else 600

    def viol(what, key, replay):
        ctx.violations.append(core.Violation(what=what, key=key, replay=replay))

    for h in range(n_hist):
        # fresh datasets + collection per history
        refs = []
        coll = f"calib_{h}"
        for n_run, r in enumerate(RUNS):
            if n_run == 2:
                # half of the runs are registered before the CALIBRATION collection and half after it, so that rows of a
                # lower-priority collection come back from the database both before and after the calibration rows
                reg.registerCollection(coll, CollectionType.CALIBRATION)
            run = f"{r}_{h}"
            reg.registerRun(run)
            for k in KEYS:
                (ref,) = reg.insertDatasets(dt, [{"instrument": "I", "detector": k}], run=run)
                refs.append((k, ref))
        # a second, lower-priority CALIBRATION collection in which one dedicated dataset per data ID is valid at all times;
        # registered before the main one in even histories and after it in odd ones (row order from the database)
        collB = f"{'a' if h % 2 == 0 else 'z'}calibB_{h}"
        reg.registerCollection(collB, CollectionType.CALIBRATION)
        reg.registerRun(f"rB_{h}")
        fbB = {}
        for k in KEYS:
            (ref,) = reg.insertDatasets(dt, [{"instrument": "I", "detector": k}], run=f"rB_{h}")
            refs.append((k, ref))
            fbB[k] = len(refs) - 1
        reg.certify(collB, [refs[i][1] for i in fbB.values()], mk(0, MAX))
        # in two histories of three the collection also holds validity ranges of the other dataset type, for the same data IDs
        dark_rows = []
        if rng.random() < 0.67:
            reg.registerRun(f"rD_{h}")
            for k in KEYS:
                if rng.random() < 0.8:
                    (dref,) = reg.insertDatasets(dt2, [{"instrument": "I", "detector": k}], run=f"rD_{h}")
                    i_, j_ = sorted(rng.sample(range(len(grid)), 2))
                    reg.certify(coll, [dref], mk(grid[i_], grid[j_]))
                    dark_rows.append((k, dref.id, grid[i_], grid[j_]))
            dark_rows.sort()
            ctx.count("history-with-second-calibration-type")
        valid = {k: {t: set() for t in P} for k in KEYS}  # oracle
        alive = set(range(len(refs))) - set(fbB.values())
        req.append("cal new")
        impl.append("ok")
        ops_log = []
        flags = set()
        nops = rng.randint(6, 14)
        bad = False
        for step in range(nops):
            r = rng.random()
            if r < 0.5:
                ts = rand_ts()
                n = rng.choice([1, 1, 2, 2, 3])
                cand = sorted(alive)
                if not cand:
                    continue
                if rng.random() < 0.2 and len(cand) > 1:
                    # deliberately repeat a data ID (different dataset) or the very same ref
                    first = rng.choice(cand)
                    same_key = [i for i in cand if refs[i][0] == refs[first][0]]
                    batch = [first, rng.choice(same_key)]
                else:
                    batch = rng.sample(cand, min(n, len(cand)))
                op = ("certify", enc_ts(ts), [(refs[i][0], i) for i in batch])
                ops_log.append(op)
                bb, ee = ts.nsec
                keys = [refs[i][0] for i in batch]
                would_overlap = False
                if bb < ee:
                    for i in batch:
                        k = refs[i][0]
                        if any(valid[k][t] for t in P if bb <= t < ee):
                            would_overlap = True
                    if len(set(keys)) < len(keys):
                        would_overlap = True
                try:
                    reg.certify(coll, [refs[i][1] for i in batch], ts)
                    out = "ok"
                except ConflictingDefinitionError:
                    out = "err ConflictingDefinitionError"
                except Exception as e:
                    out = f"err INTERNAL:{type(e).__name__}"
                req.append(f"cal certify {enc_ts(ts)} " + ",".join(f"{refs[i][0]}:{i}" for i in batch))
                impl.append(out)
                if out == "ok":
                    flags.add("accepted")
                    for i in batch:
                        for t in P:
                            if bb <= t < ee:
                                valid[refs[i][0]][t].add(i)
                    if would_overlap:
                        dup = len(set(keys)) < len(keys)
                        kind = "dup-batch" if dup else "overlap-accepted"
                        viol(f"certify of {op[2]} over [{bb},{ee}) accepted although it makes two validity ranges overlap ({kind})",
                             "certify-dup-batch-accepted" if dup else f"certify-overlap:{ops_log}",
                             {"kind": "history", "ops": ops_log, "failing_step": step})
                        bad = True
                else:
                    flags.add("refused")
                    if not would_overlap:
                        viol(f"certify of {op[2]} over [{bb},{ee}) refused ({out}) although nothing overlaps", f"certify-refused:{ops_log}",
                             {"kind": "history", "ops": ops_log, "failing_step": step})
            elif r < 0.85:
                ts = rand_ts()
                q = rng.random()
                if q < 0.4:
                    sel, sel_enc, dataIds = None, "*", None
                elif q < 0.5:
                    sel, sel_enc, dataIds = [], "-", []
                else:
                    sel = sorted(rng.sample(KEYS, rng.choice([1, 2])))
                    sel_enc = ",".join(map(str, sel))
                    dataIds = [{"instrument": "I", "detector": k} for k in sel]
                ops_log.append(("decertify", enc_ts(ts), sel_enc))
                try:
                    reg.decertify(coll, dt, ts, dataIds=dataIds)
                    out = "ok"
                except Exception as e:
                    out = f"err INTERNAL:{type(e).__name__}"
                bb, ee = ts.nsec
                for k in KEYS:
                    if sel is None or k in sel:
                        for t in P:
                            if bb <= t < ee:
                                if valid[k][t]:
                                    flags.add("decertified")
                                valid[k][t] = set()
                req.append(f"cal decertify {enc_ts(ts)} {sel_enc}")
                impl.append(out)
            else:
                if not alive:
                    continue
                i = rng.choice(sorted(alive))
                ops_log.append(("remove", i))
                reg.removeDatasets([refs[i][1]])
                alive.discard(i)
                for k in KEYS:
                    for t in P:
                        valid[k][t].discard(i)
                req.append(f"cal remove {i}")
                impl.append("ok")
            # ---- observe: full table
            id2i = {ref.id: i for i, (_, ref) in enumerate(refs)}
            rows = []
            for a in reg.queryDatasetAssociations(dt, collections=[coll]):
                rows.append((a.ref.dataId["detector"], id2i[a.ref.id], a.timespan.nsec[0], a.timespan.nsec[1]))
            rows.sort()
            req.append("cal rows")
            impl.append(";".join(f"{k}:{d}:{x},{y}" for k, d, x, y in rows) or "-")
            ctx.evaluations += 1
            got_dark = sorted((a.ref.dataId["detector"], a.ref.id, a.timespan.nsec[0], a.timespan.nsec[1])
                              for a in reg.queryDatasetAssociations(dt2, collections=[coll]))
            if got_dark != dark_rows and not bad:
                viol(f"after {ops_log[-1]} (an operation on dataset type bias): the validity ranges of dataset type dark in the same collection are "
                     f"{[(k_, x_, y_) for k_, _, x_, y_ in got_dark]}, they were certified as {[(k_, x_, y_) for k_, _, x_, y_ in dark_rows]}",
                     f"other-type:{ops_log}", {"kind": "history", "ops": ops_log, "failing_step": step})
                bad = True
            if not bad:
                for k in KEYS:
                    for t in P:
                        got = {d for kk, d, x, y in rows if kk == k and x <= t < y}
                        if got != valid[k][t] or len(got) > 1:
                            viol(f"after {ops_log[-1]}: data ID {k} at instant {t}: valid datasets {sorted(got)}, expected {sorted(valid[k][t])}",
                                 f"state:{ops_log}", {"kind": "history", "ops": ops_log, "failing_step": step, "key": k, "instant": t})
                            bad = True
                            break
                    if bad:
                        break
            # ---- observe: lookups
            for _ in range(4):
                k = rng.choice(KEYS)
                u_ = rng.random()
                q = rand_ts() if u_ < 0.55 else (mk(0, MAX) if u_ < 0.75 else mk(*(lambda x: (x, x + 1))(rng.choice(P))))
                outs = []
                # half of the lookups use a two-collection search path: the CALIBRATION collection first, then a RUN
                # holding a dataset of that data ID (a match further down the path must never mask an ambiguity)
                fallback = None
                path = [coll]
                u2 = rng.random()
                if u2 < 0.3:
                    cands = [i for i in sorted(alive) if refs[i][0] == k]
                    if cands:
                        fallback = rng.choice(cands)
                        path = [coll, refs[fallback][1].run]
                elif u2 < 0.6:
                    fallback = fbB[k]
                    path = [coll, collB]
                for api in ("registry", "butler", "query"):
                    try:
                        if api == "registry":
                            ref = reg.findDataset(dt, instrument="I", detector=k, collections=path, timespan=q)
                        elif api == "butler":
                            ref = b.find_dataset(dt, instrument="I", detector=k, collections=path, timespan=q)
                        else:
                            # the same lookup through the query system: find-first over the path with a temporal constraint
                            found = b.query_datasets(dt, collections=path, find_first=True, explain=False, bind={"ts": q},
                                                     where=f"instrument = 'I' AND detector = {k} AND {dt.name}.timespan OVERLAPS ts")
                            if len(found) > 1:
                                outs.append(f"err INTERNAL:{len(found)} rows from a find-first query")
                                continue
                            ref = found[0] if found else None
                        outs.append("none" if ref is None else f"one {id2i[ref.id]}")
                    except CalibrationLookupError:
                        outs.append("ambiguous")
                    except Exception as e:
                        outs.append(f"err INTERNAL:{type(e).__name__}")
                        ctx.extra.setdefault("lookup_errors", []).append(f"{api}: nsec={q.nsec} path={path} " + __import__("traceback").format_exc()[-1800:]) if len(ctx.extra.get("lookup_errors", [])) < 3 else None
                req.append(f"cal lookup {k} {enc_ts(q)}" + ("" if fallback is None else f" {fallback}"))
                impl.append(outs[0])
                ctx.evaluations += 1
                qb, qe = q.nsec
                D = set()
                for t in P:
                    if qb <= t < qe:
                        D |= valid[k][t]
                for api, out in zip(("Registry.findDataset", "Butler.find_dataset", "Butler.query_datasets(find_first)"), outs):
                    if api.startswith("Butler.query_datasets") and len(D) == 0 and fallback is not None and out in ("none", f"one {fallback}"):
                        continue  # a RUN further down the path has no timespan: whether an OVERLAPS constraint keeps it is not pinned down
                    okk = (
                        # (a RUN further down the path behaves as valid at every instant: it overlaps any non-empty timespan)
                        (len(D) == 0 and out == ("none" if (fallback is None or qb >= qe) else f"one {fallback}"))
                        or (len(D) == 1 and out in (f"one {next(iter(D))}", "ambiguous"))
                        or (len(D) >= 2 and out == "ambiguous")
                    )
                    if not okk and not bad:
                        viol(f"{api}(detector={k}, timespan=[{qb},{qe})) = {out}; datasets valid in that span: {sorted(D)}",
                             f"lookup:{ops_log}:{k}:{qb}:{qe}", {"kind": "history", "ops": ops_log, "lookup": [k, qb, qe], "got": out})
                if outs[0] != outs[1]:
                    ctx.broken.append(f"Registry.findDataset and Butler.find_dataset disagree: {outs} after {ops_log}")
            # ---- observe: instants.  `bias.timespan OVERLAPS <time>` at the exact ends and begins of the ranges on record (a
            # validity range is half-open: its end instant is outside), plus one instant at random
            if not bad:
                k = rng.choice(KEYS)
                ends = sorted({v for kk, d, x, y in rows if kk == k for v in (x, y)} & set(P) - {0, MAX - 1})
                inst = (rng.sample(ends, min(3, len(ends))) if ends else []) + [rng.choice(P[1:-1])]
                for t in inst:
                    try:
                        found = b.query_datasets(dt, collections=[coll], find_first=False, explain=False, bind={"t": tconv.nsec_to_astropy(t)},
                                                 where=f"instrument = 'I' AND detector = {k} AND {dt.name}.timespan OVERLAPS t")
                        got = sorted(id2i[r.id] for r in found)
                    except Exception as e:
                        got = f"err INTERNAL:{type(e).__name__}"
                    ctx.evaluations += 1
                    ctx.count("instant-probe")
                    if got != sorted(valid[k][t]):
                        viol(f"Butler.query_datasets(where='{dt.name}.timespan OVERLAPS t', t = instant {t} ns) for detector {k} gives datasets {got}; "
                             f"valid at that instant: {sorted(valid[k][t])} (ranges on record for that data ID: "
                             f"{[(d, x, y) for kk, d, x, y in rows if kk == k]})",
                             f"instant:{ops_log}:{k}:{t}", {"kind": "history", "ops": ops_log, "instant": [k, t], "got": got})
                        bad = True
                        break
            # ---- observe: Butler.getDeferred (the lookup of Butler.get) with a data ID that carries a timespan of its own (day_obs) and,
            # half of the time, an explicit timespan too, which then is the one that counts
            if not bad:
                for _ in range(2):
                    k = rng.choice(KEYS)
                    day = rng.choice(sorted(DAYS))
                    q = None if rng.random() < 0.4 else (rand_ts() if rng.random() < 0.7 else mk(*(lambda x: (x, x + 1))(rng.choice(P))))
                    qb, qe = DAYS[day] if q is None else q.nsec
                    try:
                        ref = b.getDeferred(dt, instrument="I", detector=k, day_obs=day, collections=[coll], timespan=q).ref
                        out = f"one {id2i[ref.id]}"
                    except DatasetNotFoundError:
                        out = "none"
                    except CalibrationLookupError:
                        out = "ambiguous"
                    except Exception as e:
                        out = f"err INTERNAL:{type(e).__name__}"
                    ctx.evaluations += 1
                    ctx.count("getDeferred-day_obs" + ("" if q is None else "+timespan"))
                    D = set()
                    for t in P:
                        if qb <= t < qe:
                            D |= valid[k][t]
                    okk = ((len(D) == 0 and out == "none") or (len(D) == 1 and out in (f"one {next(iter(D))}", "ambiguous"))
                           or (len(D) >= 2 and out == "ambiguous"))
                    if not okk:
                        viol(f"Butler.getDeferred(bias, detector={k}, day_obs={day} (timespan [{DAYS[day][0]},{DAYS[day][1]})), "
                             f"timespan={'None' if q is None else f'[{qb},{qe})'}) = {out}; datasets valid in [{qb},{qe}): {sorted(D)}",
                             f"getdeferred:{ops_log}:{k}:{day}:{qb}:{qe}", {"kind": "history", "ops": ops_log, "lookup": [k, day, qb, qe], "got": out})
                        bad = True
                        break
        if {"accepted", "refused"} <= flags or "decertified" in flags:
            ctx.nontrivial.add(repr(ops_log))
        for op in ops_log:
            ctx.count(op[0])
        ctx.sample(ops_log, cap=3)

    big_batch(ctx, b, reg, dt, mk, viol)

    if model_ok:
        got = core.driver(req)
        nd = 0
        for line, m, i in zip(req, got, impl):
            if m != i:
                nd += 1
                if nd <= 5:
                    ctx.broken.append(f"correspondence: `{line}` model={m} implementation={i}")
        ctx.extra["correspondence_lines"] = len(req)
        ctx.extra["correspondence_disagreements"] = nd
    else:
        ctx.notes.append("model not built: correspondence skipped, implementation searched with the interval-map oracle only")


def big_batch(ctx, b, reg, dt, mk, viol):
    """Batches larger than every internal chunk size (row chunks, constant-row limits, temporary-table thresholds):
    certify 1300 datasets in one call, then decertify the middle of the range for 1250 of the data IDs in one call."""
    from lsst.daf.butler import CollectionType

    N = 1300
    reg.insertDimensionData("instrument", {"name": "BIG"})
    reg.insertDimensionData("detector", *[{"instrument": "BIG", "id": i, "full_name": f"b{i}"} for i in range(N)])
    reg.registerRun("big_run")
    refs = reg.insertDatasets(dt, [{"instrument": "BIG", "detector": i} for i in range(N)], run="big_run")
    reg.registerCollection("big_calib", CollectionType.CALIBRATION)
    reg.certify("big_calib", refs, mk(100, 200))
    sel = list(range(25, N - 25))
    reg.decertify("big_calib", dt, mk(120, 150), dataIds=[{"instrument": "BIG", "detector": i} for i in sel])
    rows = {}
    for a in reg.queryDatasetAssociations(dt, collections=["big_calib"]):
        rows.setdefault(a.ref.dataId["detector"], []).append(a.timespan.nsec)
    ctx.evaluations += 1
    ctx.count("big-batch")
    bad = []
    for i in range(N):
        want = [(100, 120), (150, 200)] if i in set(sel) else [(100, 200)]
        if sorted(rows.get(i, [])) != want:
            bad.append((i, sorted(rows.get(i, []))))
    if bad:
        viol(f"certify of {N} datasets + decertify [120,150) for {len(sel)} data IDs in one call: {len(bad)} data IDs have wrong validity "
             f"ranges, e.g. detector {bad[0][0]} -> {bad[0][1]}", "big-batch-decertify", {"kind": "big-batch", "n": N, "wrong": bad[:10]})
    # a second certify overlapping only a few of them (placed anywhere in the batch) must be refused as a whole
    refs2 = reg.insertDatasets(dt, [{"instrument": "BIG", "detector": i} for i in range(N)], run=_mkrun(reg, "big_run2"))
    from lsst.daf.butler.registry import ConflictingDefinitionError
    reg.decertify("big_calib", dt, mk(100, 200), dataIds=[{"instrument": "BIG", "detector": i} for i in range(N) if i % 100 != 7])
    try:
        reg.certify("big_calib", refs2, mk(110, 115))
        viol(f"certify of {N} datasets accepted although {N // 100} of their data IDs already have an overlapping validity range",
             "big-batch-certify", {"kind": "big-batch", "n": N})
    except ConflictingDefinitionError:
        pass
    ctx.evaluations += 1


def _mkrun(reg, name):
    reg.registerRun(name)
    return name


def replay(ctx, content):
    print("replay:", content.get("what"))
    print("ops:", content.get("ops"))
    run(ctx)
    return core.finish(ctx)
