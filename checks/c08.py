"""C08 — a crash at any instant leaves a repository that reopens consistent.

Model: Model/Crash.lean (committed database + open transaction + files; effects; the local discipline
`guard`); theorems in Props/C08.lean (inv_apply: every guarded effect preserves consistency of the committed
state and of the transaction's view; crash_consistent: a disciplined effect sequence is consistent after
every prefix, i.e. at every crash point including the middle of a write).
Tie: T/C — the effect sequence of every scenario operation is *recorded from the real code on every run*
(SQL statements with their parameters, BEGIN/COMMIT/ROLLBACK, write / copy / rename / link / remove under
lsst.resources), translated to model effects and (1) checked against the discipline by the model, (2) replayed
physically: for every event k a forked child process runs the real operation on a copy of the repository and
dies (os._exit) immediately before event k — and, for writes and copies, after half of the bytes; the state
a fresh process finds (tables read with sqlite3, files with content) is compared with the model's state after
the same prefix.
Oracle (model-free): on the recovered repository a fresh Butler must read every non-target dataset with its
original content, see every interrupted insertion completely or not at all, find no half-written file under a
final name; re-running the removal and emptying the trash must complete it.
"""
from __future__ import annotations

import hashlib
import json
import multiprocessing
import os
import shutil
import sqlite3
import sys
import uuid

from vlib import core, repo

LEVEL = "proof"
LEAN_TARGETS = ["ButlerModel.Props.C08", "driver"]


def run(ctx):
    ctx.rule = (
        "scenarios {put; ingest_zip of two datasets; ingest(copy) and ingest(move) of one file for two datasets; transfer_from of two datasets; "
        "pruneDatasets(purge) of two datasets; pruneDatasets(unstore) of one; purge of one of two datasets sharing a file; removeRuns; "
        "emptyTrash with a trashed dataset}: for each, every crash point k = 1..n+1 before the k-th durable event of the real operation "
        "(modifying SQL statement, BEGIN, COMMIT, ROLLBACK, file write, copy, rename, link, delete) and the middle of every write / copy; "
        "thorough tier: for the removals also every pair (crash point of the operation, crash point 1..15 of the recovery that re-runs it and "
        "empties the trash); non-trivial = crash points at which some effect had already happened and some was still to come"
    )
    ctx.assumptions = [
        "SQLite makes a committed transaction durable and discards an open one when the process dies — the pragmas of the live connections "
        "(journal_mode, synchronous, foreign_keys) are read on every run, and a process is killed inside one very large transaction",
        "os.rename / os.link are atomic on the local filesystem; a process death is simulated with os._exit (kernel crashes / power loss with "
        "unsynced pages are not simulated)",
        "crash points inside C extensions (within one SQL statement, within one write syscall) are not reachable",
    ]
    with core.Lock():
        built = core.lean_build(ctx, LEAN_TARGETS)
        if built:
            core.lean_audit(ctx, ["ButlerModel.Props.C08"])
            if not ctx.quick():
                core.leanchecker(ctx, ["ButlerModel.Props.C08"])
    with repo.Scratch("verif-c08-") as tmp:
        durability(ctx, tmp)
        crash_points(ctx, built, tmp)


# ------------------------------------------------------------------------------------------------ scenarios
DET = {"keep": 1, "t2": 2, "t3": 3, "trashed": 4, "s5": 5, "s6": 6, "x7": 7, "x8": 8, "new9": 9, "ref9": 9, "in10": 10, "in11": 11, "x12": 12}


def build_template(tmp):
    from lsst.daf.butler import Butler, DatasetRef, DatasetType, FileDataset

    area = os.path.join(tmp, "template")
    os.makedirs(os.path.join(area, "ext"))

    def furnish(path, run):
        bb = repo.make_butler(path, run=run)
        bb.registry.insertDimensionData("instrument", {"name": "I"})
        bb.registry.insertDimensionData("detector", *[{"instrument": "I", "id": i, "full_name": f"d{i}"} for i in range(1, 13)])
        d = DatasetType("dt", {"instrument", "detector"}, "StructuredDataDict", universe=bb.dimensions)
        bb.registry.registerDatasetType(d)
        return bb, d

    b, dt = furnish(os.path.join(area, "repo"), "r1")
    src, _ = furnish(os.path.join(area, "src"), "r1")
    b.registry.registerRun("r2")
    meta = {"ids": {}, "content": {}}

    def remember(name, ref, content):
        meta["ids"][name] = ref.id.hex
        meta["content"][name] = content

    remember("keep", b.put({"keep": 1}, dt, instrument="I", detector=1), {"keep": 1})
    remember("t2", b.put({"t": 2, "pad": "x" * 50}, dt, instrument="I", detector=2, run="r2"), {"t": 2, "pad": "x" * 50})
    remember("t3", b.put({"t": 3, "pad": "y" * 50}, dt, instrument="I", detector=3, run="r2"), {"t": 3, "pad": "y" * 50})
    tr = b.put({"t": 4, "pad": "z" * 50}, dt, instrument="I", detector=4)
    remember("trashed", tr, {"t": 4, "pad": "z" * 50})
    b._datastore.trash([tr])
    p = os.path.join(area, "ext", "shared.yaml")
    with open(p, "w") as fh:
        fh.write("s: 56\npad: " + "s" * 50 + "\n")
    r5 = DatasetRef(dt, {"instrument": "I", "detector": 5}, run="r1")
    r6 = DatasetRef(dt, {"instrument": "I", "detector": 6}, run="r1")
    b.ingest(FileDataset(path=p, refs=[r5, r6]), transfer="copy")
    os.remove(p)
    remember("s5", r5, {"s": 56, "pad": "s" * 50})
    remember("s6", r6, {"s": 56, "pad": "s" * 50})
    remember("x7", src.put({"x": 7, "pad": "a" * 60}, dt, instrument="I", detector=7), {"x": 7, "pad": "a" * 60})
    remember("x8", src.put({"x": 8, "pad": "b" * 60}, dt, instrument="I", detector=8), {"x": 8, "pad": "b" * 60})
    # x12 is already in the target (transferred earlier): a later transfer that names it again must leave it alone
    x12 = src.put({"x": 12, "pad": "c" * 60}, dt, instrument="I", detector=12)
    remember("x12", x12, {"x": 12, "pad": "c" * 60})
    b.transfer_from(src, [x12], transfer="copy")
    with open(os.path.join(area, "ext", "in.yaml"), "w") as fh:
        fh.write("i: 1011\npad: " + "i" * 80 + "\n")
    z = src.retrieve_artifacts_zip([src.get_dataset(uuid.UUID(meta["ids"][n])) for n in ("x7", "x8")], os.path.join(area, "ext"))
    os.rename(z.ospath, os.path.join(area, "ext", "z.zip"))
    meta["content"]["new9"] = {"v": 9, "pad": "n" * 70}
    meta["content"]["in10"] = meta["content"]["in11"] = {"i": 1011, "pad": "i" * 80}
    # fixed ids for the refs the ingest scenarios create
    meta["content"]["ref9"] = {"v": 99, "pad": "r" * 70}
    meta["ids"]["ref9"] = uuid.UUID(int=0x9999).hex
    meta["ids"]["in10"] = uuid.UUID(int=0x1010).hex
    meta["ids"]["in11"] = uuid.UUID(int=0x1111).hex
    del b, src
    return area, meta


def scenario_ops():
    """name -> (kind, targets, callable(b, area, meta))"""
    from lsst.daf.butler import Butler, DatasetRef, FileDataset

    def refs_of(b, meta, names):
        return [b.get_dataset(uuid.UUID(meta["ids"][n])) for n in names]

    def put(b, area, meta):
        b.put(dict(meta["content"]["new9"]), "dt", instrument="I", detector=9, run="r1")

    def put_ref(b, area, meta):
        # the other call form: the caller hands over a resolved ref (a task writing its predefined output)
        ref = DatasetRef(b.get_dataset_type("dt"), b.registry.expandDataId(instrument="I", detector=9), run="r1", id=uuid.UUID(meta["ids"]["ref9"]))
        b.put(dict(meta["content"]["ref9"]), ref)

    def ingest(how):
        def f(b, area, meta):
            dt = b.get_dataset_type("dt")
            rr = [DatasetRef(dt, {"instrument": "I", "detector": DET[n]}, run="r1", id=uuid.UUID(meta["ids"][n])) for n in ("in10", "in11")]
            b.ingest(FileDataset(path=os.path.join(area, "ext", "in.yaml"), refs=rr), transfer=how)
        return f

    def transfer(b, area, meta):
        src = Butler.from_config(os.path.join(area, "src"))
        b.transfer_from(src, refs_of(src, meta, ["x7", "x8"]), transfer="copy")

    def transfer_again(mode):
        def f(b, area, meta):
            src = Butler.from_config(os.path.join(area, "src"))
            b.transfer_from(src, refs_of(src, meta, ["x12", "x8"]), transfer=mode)
        return f

    def purge(names):
        return lambda b, area, meta: b.pruneDatasets(refs_of(b, meta, names), purge=True, unstore=True, disassociate=True)

    def unstore(b, area, meta):
        b.pruneDatasets(refs_of(b, meta, ["t2"]), unstore=True, disassociate=False, purge=False)

    def remove_runs(b, area, meta):
        b.removeRuns(["r2"], unstore=True)

    def empty(b, area, meta):
        b._datastore.emptyTrash()

    def ingest_zip(b, area, meta):
        b.ingest_zip(os.path.join(area, "ext", "z.zip"), transfer="copy")

    return {
        "ingest-zip": ("insert", ["x7", "x8"], ingest_zip),
        "put": ("insert", ["new9"], put),
        "put-resolved-ref": ("insert", ["ref9"], put_ref),
        "ingest-copy": ("insert", ["in10", "in11"], ingest("copy")),
        "ingest-move": ("insert", ["in10", "in11"], ingest("move")),
        "transfer": ("insert", ["x7", "x8"], transfer),
        "transfer-again-hardlink": ("insert", ["x8"], transfer_again("hardlink")),
        "transfer-again-symlink": ("insert", ["x8"], transfer_again("symlink")),
        "purge": ("remove", ["t2", "t3"], purge(["t2", "t3"])),
        "unstore": ("unstore", ["t2"], unstore),
        "purge-shared": ("remove", ["s5"], purge(["s5"])),
        "removeRuns": ("remove", ["t2", "t3"], remove_runs),
        "emptyTrash": ("empty", ["trashed"], empty),
    }


# ------------------------------------------------------------------------------------------------ one crash run
def snapshot_files(area):
    out = {}
    for top in ("repo", "ext", "src"):  # the source repository's artifacts are what link-mode transfers point at
        for dp, _, fs in os.walk(os.path.join(area, top)):
            for f in fs:
                if "sqlite" in f or f == "butler.yaml":
                    continue
                p = os.path.join(dp, f)
                with open(p, "rb") as fh:
                    data = fh.read()
                out[os.path.relpath(p, area)] = (len(data), hashlib.sha1(data).hexdigest()[:12])
    return out


def read_tables(area):
    con = sqlite3.connect(os.path.join(area, "repo", "gen3.sqlite3"))
    try:
        def col(q):
            return [bytes(r[0]).hex() if isinstance(r[0], (bytes, memoryview)) else str(r[0]).replace("-", "") for r in con.execute(q)]

        t = {"reg": col("SELECT id FROM dataset"), "loc": col("SELECT dataset_id FROM dataset_location"),
             "trash": col("SELECT dataset_id FROM dataset_location_trash")}
        t["recs"] = [((bytes(r[0]).hex() if isinstance(r[0], (bytes, memoryview)) else str(r[0]).replace("-", "")), r[1])
                     for r in con.execute("SELECT dataset_id, path FROM file_datastore_records")]
        return t
    finally:
        con.close()


def crash_run(args):
    """Runs in a pool worker: copy the template, fork a child that performs the operation and dies at the crash
    point, then look at what a fresh process finds."""
    template, meta, scen, k, mode, workdir = args
    area = os.path.join(workdir, f"{scen}-{k}-{mode}")
    shutil.copytree(template, area)
    trace = os.path.join(area, "trace.jsonl")
    pid = os.fork()
    if pid == 0:
        try:
            import warnings

            warnings.filterwarnings("ignore")
            from lsst.daf.butler import Butler
            from vlib import crashhooks

            # deterministic dataset ids so that every run of the scenario creates the same datasets
            counter = [0x9000]

            def fake_uuid4():
                counter[0] += 1
                return uuid.UUID(int=counter[0])

            uuid.uuid4 = fake_uuid4
            os.environ["LSST_RESOURCES_NUM_WORKERS"] = "1"  # one transfer thread: the order of effects is then deterministic
            h = crashhooks.Hooks(trace, crash_at=k, mode=mode)
            crashhooks.install(h)
            b = Butler.from_config(os.path.join(area, "repo"), writeable=True, run="r1")
            op = scenario_ops()[scen][2]
            h.active = True
            op(b, area, meta)
            h.active = False
            os._exit(0)
        except BaseException as e:  # noqa: BLE001
            try:
                with open(os.path.join(area, "child-error.txt"), "w") as fh:
                    import traceback

                    fh.write(traceback.format_exc())
            finally:
                os._exit(3)
    _, status = os.waitpid(pid, 0)
    code = os.waitstatus_to_exitcode(status)
    out = {"scenario": scen, "k": k, "mode": mode, "exit": code, "area": area}
    if os.path.exists(trace):
        out["trace"] = [json.loads(l) for l in open(trace)]
    else:
        out["trace"] = []
    if code == 3:
        out["child_error"] = open(os.path.join(area, "child-error.txt")).read()[-1500:]
        return out
    out["tables"] = read_tables(area)
    out["files"] = snapshot_files(area)
    if k is not None:
        out["oracle"] = oracle(area, meta, scen)
        shutil.rmtree(area, ignore_errors=True)
    return out


def double_crash_run(args):
    """Thorough tier: the operation dies before event k; the *recovery* (re-running the removal, emptying the trash) then dies
    before its own event j; what a fresh process finds after that must again be recoverable (the oracle re-runs the recovery)."""
    template, meta, scen, k, j, workdir = args
    area = os.path.join(workdir, f"{scen}-{k}-then-{j}")
    shutil.copytree(template, area)
    codes = []
    for phase, crash_at in (("op", k), ("recovery", j)):
        pid = os.fork()
        if pid == 0:
            try:
                import warnings

                warnings.filterwarnings("ignore")
                from lsst.daf.butler import Butler
                from vlib import crashhooks

                counter = [0x9000]

                def fake_uuid4():
                    counter[0] += 1
                    return uuid.UUID(int=counter[0])

                uuid.uuid4 = fake_uuid4
                os.environ["LSST_RESOURCES_NUM_WORKERS"] = "1"
                h = crashhooks.Hooks(os.path.join(area, f"trace-{phase}.jsonl"), crash_at=crash_at, mode="before")
                crashhooks.install(h)
                b = Butler.from_config(os.path.join(area, "repo"), writeable=True, run="r1")
                kind, targets, op = scenario_ops()[scen]
                h.active = True
                if phase == "op":
                    op(b, area, meta)
                else:
                    still = [n for n in targets if b.get_dataset(uuid.UUID(meta["ids"][n])) is not None]
                    if kind != "empty" and len(still) == len(targets):
                        op(b, area, meta)
                    b._datastore.emptyTrash()
                h.active = False
                os._exit(0)
            except BaseException:  # noqa: BLE001
                try:
                    with open(os.path.join(area, "child-error.txt"), "w") as fh:
                        import traceback

                        fh.write(f"phase {phase}\n" + traceback.format_exc())
                finally:
                    os._exit(3)
        _, status = os.waitpid(pid, 0)
        codes.append(os.waitstatus_to_exitcode(status))
        if codes[-1] == 3:
            break
    out = {"scenario": scen, "k": k, "j": j, "exits": codes}
    if 3 in codes:
        out["child_error"] = open(os.path.join(area, "child-error.txt")).read()[-1500:]
    else:
        out["oracle"] = oracle(area, meta, scen)
    shutil.rmtree(area, ignore_errors=True)
    return out


def oracle(area, meta, scen):
    """What a fresh Butler sees on the recovered repository; then the re-run of an interrupted removal."""
    import warnings

    warnings.filterwarnings("ignore")
    from lsst.daf.butler import Butler

    kind, targets, op = scenario_ops()[scen]
    problems = []
    b = Butler.from_config(os.path.join(area, "repo"), writeable=True, run="r1")
    prepared = ["keep", "t2", "t3", "s5", "s6", "x12"]
    state = {}

    def look(name):
        did = uuid.UUID(meta["ids"][name]) if name in meta["ids"] else None
        ref = b.get_dataset(did) if did is not None else b.find_dataset("dt", instrument="I", detector=DET[name], collections="r1")
        if ref is None:
            return ("absent", None)
        try:
            got = b.get(ref)
            return ("readable", got)
        except Exception as e:
            return ("unreadable:" + type(e).__name__, None)

    for name in prepared:
        if name in targets:
            continue
        st, got = look(name)
        if st != "readable" or got != meta["content"][name]:
            problems.append(f"dataset {name}, not a target of the interrupted {scen}, is {st}" + (f" with content {got}" if got is not None else ""))
    for name in targets:
        st, got = look(name)
        state[name] = st
        if kind == "insert":
            if st == "readable" and got != meta["content"][name]:
                problems.append(f"interrupted insertion of {name}: reads back {got}")
            elif st.startswith("unreadable"):
                problems.append(f"interrupted insertion of {name}: registered but {st}")
    if kind == "insert":
        # not at all: no records left behind either
        t = read_tables(area)
        for name in targets:
            did = meta["ids"].get(name)
            if state[name] == "absent" and did is not None and (did in t["loc"] or any(r[0] == did for r in t["recs"])):
                problems.append(f"interrupted insertion of {name}: not registered but the datastore has records of it")
    if kind in ("remove", "unstore", "empty"):
        # files go only after the commit that takes the dataset out of the datastore's location table: a dataset the reopened
        # repository still lists as stored (and not as trashed) must still be readable
        t0 = read_tables(area)
        for name in targets:
            did = meta["ids"][name]
            if state[name].startswith("unreadable") and did in t0["loc"] and did not in t0["trash"]:
                problems.append(f"interrupted {scen}: {name} is still registered and still recorded as stored (not trashed), but it is {state[name]}")
    if kind == "remove" and len({state[n] == "absent" for n in targets}) > 1:
        problems.append(f"interrupted removal is not all-or-nothing in the registry: {state}")
    if kind in ("remove", "unstore", "empty"):
        # re-running the removal (when the targets are still there) and emptying the trash completes it
        try:
            if kind != "empty" and all(state[n] != "absent" for n in targets):
                op(b, area, meta)
            b._datastore.emptyTrash()
        except Exception as e:
            problems.append(f"re-running the interrupted {scen} raised {type(e).__name__}: {str(e)[:100]}")
        t = read_tables(area)
        files = snapshot_files(area)
        for name in targets:
            did = meta["ids"][name]
            if kind == "remove" and did in t["reg"]:
                problems.append(f"after the re-run {name} is still registered")
            if did in t["loc"] or any(r[0] == did for r in t["recs"]):
                problems.append(f"after the re-run the datastore still has records of {name}")
            fname = f"dt_I_d{DET[name]}_"
            left = [f for f in files if fname in f and f.startswith("repo/")]
            shared_with_live = name == "s5"  # s6 still refers to the same file: it must stay (C09)
            if left and not shared_with_live:
                problems.append(f"after the re-run the artifact of {name} is still there: {left}")
        for name in prepared:
            if name in targets:
                continue
            st, got = look(name)
            if st != "readable" or got != meta["content"][name]:
                problems.append(f"after the re-run dataset {name} (not a target) is {st}")
    return problems


# ------------------------------------------------------------------------------------------------ translation
class Numbering:
    def __init__(self):
        self.ids, self.paths = {}, {}

    def id(self, u):
        return self.ids.setdefault(u.replace("-", ""), len(self.ids) + 1)

    def path(self, p):
        return self.paths.setdefault(p, len(self.paths) + 1)


HEX = set("0123456789abcdef")


def uuids_in(row):
    vals = row.values() if isinstance(row, dict) else row
    return [v.replace("-", "") for v in vals if isinstance(v, str) and len(v.replace("-", "")) == 32 and set(v.replace("-", "")) <= HEX]


def translate(trace, area, num, run_members, canon_path):
    """Events -> model effect tokens; returns (tokens, prefix) with prefix[j] = number of tokens produced by events 1..j."""
    toks, prefix = [], [0]
    root = os.path.join(area, "repo")
    staged = []  # dataset ids last written to a temporary table (INSERT INTO dataset ... SELECT FROM tmp)
    for ev in trace:
        kind = ev["kind"]
        new = []
        if "db" in ev and not os.path.abspath(ev["db"]).startswith(os.path.abspath(root)):
            new = ["o"]  # another database (the source repository of a transfer): not part of this repository's durable state
        elif kind == "commit":
            new = ["C"]
        elif kind == "rollback":
            new = ["R"]
        elif kind == "sql":
            st = ev["statement"]
            rows = ev["params"]
            ids = [num.id(u) for row in rows for u in uuids_in(row)]
            csv = ",".join(map(str, ids)) or "-"
            up = st.upper()
            if up.startswith("BEGIN"):
                new = ["B"]
            elif up.startswith("ROLLBACK TO"):
                new = ["UNSUPPORTED-ROLLBACK-TO-SAVEPOINT"]
            elif up.startswith("ROLLBACK"):
                new = ["R"]
            elif up.startswith("INSERT INTO TMP_"):
                staged = list(ids)
                new = ["o"]
            elif up.startswith("INSERT INTO DATASET ("):
                if not ids and " SELECT " in up:
                    csv = ",".join(map(str, staged)) or "-"
                new = [f"reg+:{csv}"]
            elif up.startswith("DELETE FROM DATASET WHERE"):
                new = [f"reg-:{csv}"]
            elif up.startswith("INSERT INTO DATASET_LOCATION ("):
                new = [f"loc+:{csv}"]
            elif up.startswith("DELETE FROM DATASET_LOCATION WHERE"):
                new = [f"loc-:{csv}"]
            elif up.startswith("INSERT INTO DATASET_LOCATION_TRASH"):
                new = [f"tr+:{csv}"]
            elif up.startswith("DELETE FROM DATASET_LOCATION_TRASH"):
                new = [f"tr-:{csv}"]
            elif up.startswith("INSERT INTO FILE_DATASTORE_RECORDS"):
                pairs = []
                for row in rows:
                    vals = list(row.values()) if isinstance(row, dict) else row
                    u = uuids_in(row)[0]
                    rel = vals[1].split("#", 1)[0]  # a zip member is recorded as path#zip-path=…: the artifact is the zip
                    pairs.append(f"{num.id(u)}@{num.path(canon_path(os.path.join(root, rel)))}")
                new = ["rec+:" + ",".join(pairs)]
            elif up.startswith("DELETE FROM FILE_DATASTORE_RECORDS"):
                new = [f"rec-:{csv}"]
            elif up.startswith("DELETE FROM COLLECTION ") or up.startswith("DELETE FROM RUN "):
                # ON DELETE CASCADE: the datasets of the RUN go with it
                members = ",".join(str(num.id(u)) for u in run_members) or "-"
                new = [f"reg-:{members}"] if "COLLECTION" in up.split()[2] else ["o"]
            else:
                new = ["o"]
        elif kind in ("write", "copy"):
            p = num.path(canon_path(ev["path"] if kind == "write" else ev["dst"]))
            new = [f"fc:{p}", f"fd:{p}"]
        elif kind == "rename":
            new = [f"mv:{num.path(canon_path(ev['src']))}>{num.path(canon_path(ev['dst']))}"]
        elif kind == "link":
            new = [f"ln:{num.path(canon_path(ev['src']))}>{num.path(canon_path(ev['dst']))}"]
        elif kind == "remove":
            new = [f"rm:{num.path(canon_path(ev['path']))}"]
        else:
            new = ["o"]
        toks += new
        prefix.append(len(toks))
    return toks, prefix


def _big_txn_child(root, n):
    """child: one ingest of a file shared by n datasets — a single transaction far larger than SQLite's page cache — dying at COMMIT"""
    import warnings

    warnings.filterwarnings("ignore")
    import sqlalchemy
    from lsst.daf.butler import Butler, DatasetRef, FileDataset

    b = Butler.from_config(root, writeable=True, run="big")
    dt = b.get_dataset_type("dt")
    refs = [DatasetRef(dt, {"instrument": "I", "detector": i}, run="big") for i in range(100, 100 + n)]
    src = os.path.join(os.path.dirname(root), "big.yaml")
    with open(src, "w") as fh:
        fh.write("big: 1\n")
    armed = [False]

    def die(conn):
        if armed[0]:
            os._exit(77)

    sqlalchemy.event.listen(b._registry._db._engine, "commit", die)
    armed[0] = True
    b.ingest(FileDataset(path=src, refs=refs), transfer="copy")
    os._exit(0)


def durability(ctx, tmp):
    """The crash theorems rest on SQLite rolling back a transaction that never committed.  That holds while the rollback journal
    (or WAL) is on disk: the connection's pragmas are read from the live engine, and a process is really killed at the COMMIT of one
    transaction of several thousand datasets (far beyond SQLite's page cache) and the file reopened by a fresh client."""
    import sqlite3

    from lsst.daf.butler import Butler, DatasetType

    def viol(what, key, replay, found=True):
        ctx.violations.append(core.Violation(what=what, key=key, replay=replay, found_input=found))

    root = os.path.join(tmp, "dur", "repo")
    os.makedirs(os.path.dirname(root))
    b = repo.make_butler(root, run="r1")
    N = 3000 if ctx.quick() else 8000
    b.registry.insertDimensionData("instrument", {"name": "I"})
    b.registry.insertDimensionData("detector", *[{"instrument": "I", "id": i, "full_name": f"d{i}"} for i in [1] + list(range(100, 100 + N))])
    dt = DatasetType("dt", {"instrument", "detector"}, "StructuredDataDict", universe=b.dimensions)
    b.registry.registerDatasetType(dt)
    b.registry.registerRun("big")
    keep = b.put({"keep": 1}, dt, instrument="I", detector=1)
    with b._registry._db._engine.connect() as con:
        jm = str(con.exec_driver_sql("PRAGMA journal_mode").scalar()).lower()
        sync = int(con.exec_driver_sql("PRAGMA synchronous").scalar())
        fk = int(con.exec_driver_sql("PRAGMA foreign_keys").scalar())
    ctx.extra["sqlite_pragmas"] = {"journal_mode": jm, "synchronous": sync, "foreign_keys": fk}
    ctx.evaluations += 1
    durable = jm in ("delete", "truncate", "persist", "wal") and sync >= 1
    if fk != 1:
        ctx.broken.append(f"assumption: PRAGMA foreign_keys = {fk} on the registry's connections (ON DELETE CASCADE / RESTRICT are what removal relies on)")
    del b
    pid = os.fork()
    if pid == 0:
        try:
            _big_txn_child(root, N)
        except BaseException:  # noqa: BLE001
            os._exit(3)
    _, status = os.waitpid(pid, 0)
    code = os.waitstatus_to_exitcode(status)
    ctx.count(f"big-transaction-crash:exit{code}")
    problems = []
    try:
        con = sqlite3.connect(os.path.join(root, "gen3.sqlite3"))
        res = [r[0] for r in con.execute("PRAGMA integrity_check").fetchall()]
        con.close()
        if res != ["ok"]:
            problems.append(f"PRAGMA integrity_check: {res[:2]}")
    except Exception as e:
        problems.append(f"the database cannot be opened: {type(e).__name__}: {str(e)[:80]}")
    try:
        fresh = Butler.from_config(root, writeable=False)
        if fresh.get(keep) != {"keep": 1}:
            problems.append("the dataset that was not a target reads back changed")
        n_big = len(fresh.query_datasets("dt", collections="big", explain=False, limit=None))
        if n_big not in (0, N):
            problems.append(f"{n_big} of the {N} datasets of the interrupted ingest are registered")
    except Exception as e:
        problems.append(f"a fresh Butler fails: {type(e).__name__}: {str(e)[:100]}")
    if code != 77:
        ctx.broken.append(f"durability experiment: the child did not reach its COMMIT (exit {code})")
    if problems:
        viol(f"process killed at the COMMIT of one ingest of a file shared by {N} datasets (journal_mode={jm}, synchronous={sync}): " + "; ".join(problems),
             f"big-transaction-crash:{jm}", {"kind": "big-transaction-crash", "datasets": N, "pragmas": ctx.extra["sqlite_pragmas"], "problems": problems})
    elif not durable:
        viol(f"the registry's SQLite connections run with journal_mode={jm}, synchronous={sync}: an uncommitted transaction is no longer rolled back from "
             "disk after a crash (theorem crash_consistent assumes it); the large-transaction experiment did not exhibit a corrupted file",
             f"not-durable:{jm}:{sync}", {"kind": "assumption", "pragmas": ctx.extra["sqlite_pragmas"]}, found=False)


def crash_points(ctx, model_ok, tmp):
    os.environ["LSST_RESOURCES_NUM_WORKERS"] = "1"  # one transfer thread everywhere: the order of effects is deterministic
    import lsst.daf.butler  # noqa: F401  (imported before the pool forks)

    template, meta = build_template(tmp)
    work = os.path.join(tmp, "work")
    os.makedirs(work)
    scenarios = scenario_ops()
    names = list(scenarios)

    def viol(what, key, replay):
        ctx.violations.append(core.Violation(what=what, key=key, replay=replay))

    mpctx = multiprocessing.get_context("fork")
    with mpctx.Pool(min(14, os.cpu_count() or 4)) as pool:
        # 1. the uninterrupted run of every scenario gives its effect trace and its final state
        full = dict(zip(names, pool.map(crash_run, [(template, meta, n, None, "before", work) for n in names])))
        jobs = []
        for n in names:
            f = full[n]
            if f["exit"] != 0:
                ctx.broken.append(f"scenario {n} does not run to completion: exit {f['exit']} {f.get('child_error', '')[-300:]}")
                continue
            nev = len(f["trace"])
            for k in range(1, nev + 1):
                jobs.append((template, meta, n, k, "before", work))
                if f["trace"][k - 1]["kind"] in ("write", "copy"):
                    jobs.append((template, meta, n, k, "mid", work))
        results = pool.map(crash_run, jobs, chunksize=1)
        doubles = []
        if not ctx.quick():
            djobs = []
            for n in names:
                if scenarios[n][0] in ("remove", "unstore", "empty") and full[n]["exit"] == 0:
                    nev = len(full[n]["trace"])
                    for k in range(1, nev + 1):
                        for j in range(1, 16):
                            djobs.append((template, meta, n, k, j, work))
            doubles = pool.map(double_crash_run, djobs, chunksize=4)

    for r_ in doubles:
        ctx.evaluations += 1
        ctx.count(f"double-crash:{r_['scenario']}")
        if "child_error" in r_:
            # the second phase raising (not dying) is a failed recovery
            viol(f"{r_['scenario']} interrupted before event {r_['k']}: the recovery (re-run + emptyTrash), itself set to die before its event {r_['j']}, "
                 f"raised instead: {r_['child_error'][-300:]}", f"double-crash-error:{r_['scenario']}:{r_['k']}:{r_['j']}",
                 {"kind": "double-crash", **{k_: r_[k_] for k_ in ("scenario", "k", "j")}})
            continue
        ctx.nontrivial.add((r_["scenario"], r_["k"], "then", r_["j"]))
        for pr in r_["oracle"]:
            viol(f"{r_['scenario']} interrupted before event {r_['k']}, recovery interrupted before its event {r_['j']}: {pr}",
                 f"double-crash:{r_['scenario']}:{r_['k']}:{r_['j']}:{pr[:40]}", {"kind": "double-crash", **{k_: r_[k_] for k_ in ("scenario", "k", "j")}, "problem": pr})
    req, impl = [], []
    by_scen = {}
    for r_ in results:
        by_scen.setdefault(r_["scenario"], []).append(r_)
    template_tables = read_tables(template)
    template_files = snapshot_files(template)
    for n in names:
        f = full[n]
        if f["exit"] != 0:
            continue
        kind, targets, _ = scenarios[n]
        num = Numbering()
        for u in sorted(template_tables["reg"]):
            num.id(u)
        farea = f["area"]
        # canonical names: a path is identified by the first event position that mentions it in the full trace
        fullpaths = {}

        def canon_full(p, farea=farea):
            return os.path.relpath(p, farea) if p.startswith(farea) else p

        for name_, (size, sha) in sorted(template_files.items()):
            num.path(name_)
        run_members = [meta["ids"][x] for x in ("t2", "t3")] if n == "removeRuns" else []
        toks, prefix = translate(f["trace"], farea, num, run_members, canon_full)
        ctx.extra.setdefault("traces", {})[n] = " ".join(toks)
        init = (f"crash init reg={','.join(str(num.id(u)) for u in template_tables['reg']) or '-'} "
                f"loc={','.join(str(num.id(u)) for u in template_tables['loc']) or '-'} "
                f"trash={','.join(str(num.id(u)) for u in template_tables['trash']) or '-'} "
                f"recs={','.join(f'{num.id(u)}@{num.path(os.path.join(chr(114) + 'epo', p.split(chr(35), 1)[0]))}' for u, p in template_tables['recs']) or '-'} "
                f"files={','.join(str(num.path(p)) for p in sorted(template_files)) or '-'}")
        req.append(init), impl.append("ok")
        req.append("crash trace " + " ".join(toks)), impl.append(f"disciplined=true n={len(toks)}")
        if any(t.startswith("UNSUPPORTED") for t in toks):
            ctx.broken.append(f"scenario {n}: the trace contains ROLLBACK TO SAVEPOINT, which the model does not express")
        final_sizes = {canon_full(os.path.join(farea, p)): v for p, v in f["files"].items()}
        shutil.rmtree(farea, ignore_errors=True)
        for r_ in sorted(by_scen.get(n, []), key=lambda x: (x["k"], x["mode"])):
            k, mode = r_["k"], r_["mode"]
            ctx.evaluations += 1
            ctx.count(f"{n}:{mode}")
            if r_["exit"] not in (77, 78):
                ctx.broken.append(f"scenario {n} crash point {k}/{mode}: child exit {r_['exit']} {r_.get('child_error', '')[-300:]}")
                continue
            if 1 < k <= len(f["trace"]):
                ctx.nontrivial.add((n, k, mode))
            # the same program ran: events before k must be the same kinds as in the full trace
            kinds_here = [e["kind"] for e in r_["trace"]]
            if kinds_here != [e["kind"] for e in f["trace"]][: len(kinds_here)]:
                ctx.broken.append(f"scenario {n} crash point {k}: the run is not deterministic (event kinds differ from the full trace)")
                continue
            # canonicalise this run's path names by event position
            rename_map = {}
            for e_here, e_full in zip(r_["trace"], f["trace"]):
                for key in ("path", "src", "dst"):
                    if key in e_here:
                        rename_map[os.path.relpath(e_here[key], r_["area"]) if e_here[key].startswith(r_["area"]) else e_here[key]] = canon_full(e_full[key])
            plen = prefix[k - 1] + (1 if mode == "mid" else 0)
            req.append(f"crash at {plen}")
            t = r_["tables"]
            complete, partial_ = [], []
            for p, (size, sha) in r_["files"].items():
                cp = rename_map.get(p, p)
                want = final_sizes.get(cp) or template_files.get(cp)
                if want is None:
                    # a temporary file of this run: complete iff it has the size the write event announced
                    ev = next((e for e in r_["trace"] if e["kind"] in ("write", "copy") and
                               rename_map.get(os.path.relpath(e.get("path", e.get("dst")), r_["area"])) == cp), None)
                    want = (ev["size"], None) if ev else None
                ok_ = want is not None and size == want[0] and (want[1] is None or sha == want[1])
                (complete if ok_ else partial_).append(num.path(cp))
            fm = lambda xs: ",".join(map(str, sorted(set(xs)))) or "-"  # noqa: E731
            recs = sorted((num.id(u), num.path(os.path.join("repo", p.split("#", 1)[0]))) for u, p in t["recs"])
            impl.append(f"reg={fm(num.id(u) for u in t['reg'])} loc={fm(num.id(u) for u in t['loc'])} trash={fm(num.id(u) for u in t['trash'])} "
                        f"recs={','.join(f'{a}@{b_}' for a, b_ in recs) or '-'} files={fm(complete)} partial={fm(partial_)}")
            # oracle verdicts
            for pr in r_["oracle"]:
                ev = f["trace"][k - 1] if k <= len(f["trace"]) else {"kind": "end"}
                where = f"{ev['kind']} {ev.get('statement', ev.get('path', ev.get('dst', '')))[:60]}"
                viol(f"{n} interrupted {'in the middle of' if mode == 'mid' else 'before'} event {k} ({where}): {pr}", f"crash:{n}:{k}:{mode}:{pr[:40]}",
                     {"kind": "crash", "scenario": n, "k": k, "mode": mode, "problem": pr, "event": ev})
            # no half-written artifact under a final name
            finals = {p for p in r_["files"] if rename_map.get(p, p) in final_sizes or rename_map.get(p, p) in template_files}
            for p in finals:
                cp = rename_map.get(p, p)
                want = final_sizes.get(cp) or template_files.get(cp)
                if cp.startswith("repo/") and (r_["files"][p][0] != want[0]):
                    recorded = any(os.path.join("repo", rp) == cp for _, rp in t["recs"])
                    if recorded or True:
                        viol(f"{n} interrupted at event {k}/{mode}: half-written artifact under the final name {cp} ({r_['files'][p][0]} of {want[0]} bytes)",
                             f"crash-partial:{n}:{k}:{mode}", {"kind": "crash", "scenario": n, "k": k, "mode": mode, "file": cp})
        ctx.sample({"scenario": n, "events": len(f["trace"]), "effects": " ".join(toks)[:400]}, cap=9)
    if model_ok:
        got = core.driver(req)
        nd = 0
        for line, m, i in zip(req, got, impl):
            if m != i:
                nd += 1
                if line.startswith("crash trace") and m.startswith("disciplined=false"):
                    ctx.broken.append(f"discipline: the recorded effect order of a scenario violates the crash discipline: {m} (trace {line[12:200]})")
                elif nd <= 6:
                    ctx.broken.append(f"correspondence: `{line[:80]}` model={m} implementation={i}")
        ctx.extra["correspondence_lines"] = len(req)
        ctx.extra["correspondence_disagreements"] = nd


def replay(ctx, content):
    print("replay:", content.get("what"))
    print({k: content.get(k) for k in ("scenario", "k", "mode", "problem", "event")})
    run(ctx)
    return core.finish(ctx)
