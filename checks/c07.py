"""C07 — a failed operation or transaction block leaves registry and datastore untouched.

Model: Model/Txn.lean (Butler.transaction() = registry savepoints + the datastore's undo-log stack);
theorems in Props/C07.lean (failed_block_restores for every program and nesting depth, txn_state_restored,
the regression witness of the earlier code).
Tie: C — generated transaction programs (nested blocks, caught / uncaught inner failures) executed on a real
Butler and compared with the model (artifacts, registered datasets, datastore transaction depth).
Fault enumeration (validation of the parts no model expresses): additive operations (put, ingest copy/move,
import, transfer_from) and removals (pruneDatasets, removeRuns) with an exception injected at the k-th I/O or
SQL boundary, for every k the operation reaches.
Oracle (model-free): the observable state (registry dump + recursive listing with content) equals the
snapshot taken before the block / operation; for removals: registry all-or-nothing, non-targets intact,
leftovers removed by the next trash emptying.
"""
from __future__ import annotations

import hashlib
import os
import shutil

from vlib import core, repo

LEVEL = "proof"
LEAN_TARGETS = ["ButlerModel.Props.C07", "driver"]


class Boom(Exception):
    pass


class BoomBase(BaseException):
    """A user exception that is not an `Exception` (like KeyboardInterrupt, SystemExit, GeneratorExit)."""


ESCAPES = (Boom, BoomBase, KeyboardInterrupt, SystemExit)


class InjectedFault(OSError):
    pass


def run(ctx):
    ctx.rule = (
        "transaction programs: all programs of a seeded generator over {put, raise, nested block, try-block with caught failure} "
        "up to depth 3 and 7 statements, each executed on a real Butler; fault enumeration: for each of put, put inside a "
        "block after other puts, ingest(copy), ingest(move), import_, transfer_from, pruneDatasets(purge), removeRuns: one "
        "fault injected at the k-th SQL/file boundary for every k reached (Database.insert/replace/ensure/delete/deleteWhere/"
        "update, ResourcePath.transfer_from/write/remove/mkdir); non-trivial = programs with a caught inner failure or a "
        "fault position at which some effect had already happened"
    )
    ctx.assumptions = [
        "SQLite savepoints/transactions roll back atomically",
        "faults are injected as exceptions at call boundaries of the wrapped methods (not inside C extensions or the OS)",
    ]
    with core.Lock():
        # T-tie: DatastoreTransaction.registerUndo / rollback / commit and the context manager Datastore.transaction are translated
        # from the working tree into Gen/DsTxnPy.lean; C07.Translated.failed_block / committed_block / the two nesting theorems are
        # proved about the translation
        import sys as _sys

        _sys.path.insert(0, os.path.join(core.VERIF, "translate"))
        try:
            import gen_dstxn

            gen_dstxn.generate(core.GEN_DIR)
        except Exception as e:
            ctx.broken.append(f"translation: DatastoreTransaction / Datastore.transaction: {type(e).__name__}: {e}")
        built = core.lean_build(ctx, LEAN_TARGETS)
        if built:
            core.lean_audit(ctx, ["ButlerModel.Props.C07"])
            if not ctx.quick():
                core.leanchecker(ctx, ["ButlerModel.Props.C07"])
    with repo.Scratch("verif-c07-") as tmp:
        programs(ctx, built, tmp)
        cache_programs(ctx, built, tmp)
        special_blocks(ctx, tmp)
        faults(ctx, tmp)


# ------------------------------------------------------------------ observation
def snapshot(b, root, dts):
    files = {}
    for dp, _, fs in os.walk(root):
        for f in fs:
            p = os.path.join(dp, f)
            rel = os.path.relpath(p, root)
            if rel.startswith("gen3.sqlite3") or rel == "butler.yaml":
                continue
            with open(p, "rb") as fh:
                files[rel] = hashlib.sha1(fh.read()).hexdigest()[:10]
    regd = {}
    for c in sorted(b.registry.queryCollections()):
        for dt in dts:
            try:
                if dt.isCalibration() and b.registry.getCollectionType(c).name == "CALIBRATION":
                    rows = sorted((str(a_.ref.id), a_.ref.run, str(sorted(a_.ref.dataId.required.items())), str(a_.timespan))
                                  for a_ in b.registry.queryDatasetAssociations(dt, collections=[c]))
                else:
                    rows = sorted((str(r.id), r.run, str(sorted(r.dataId.required.items()))) for r in b.registry.queryDatasets(dt, collections=[c]))
            except Exception as e:
                rows = [type(e).__name__]
            regd[(c, dt.name)] = rows
    depth = 0
    t = b._datastore._transaction
    while t is not None:
        depth += 1
        t = t.parent
    inmem = 0
    for child in getattr(b._datastore, "datastores", []):
        if hasattr(child, "datasets"):
            inmem += len(child.datasets)
    return {"files": files, "registry": regd, "collections": sorted(b.registry.queryCollections()), "txn_depth": depth, "inmem": inmem}


def diff(a, c):
    out = []
    for k in ("files", "registry", "collections", "txn_depth", "inmem"):
        if a[k] != c[k]:
            if k == "files":
                out.append(f"artifacts changed: +{sorted(set(c[k]) - set(a[k]))} -{sorted(set(a[k]) - set(c[k]))}"
                           + (" (content changed)" if any(a[k].get(f) != c[k].get(f) for f in set(a[k]) & set(c[k])) else ""))
            elif k == "txn_depth":
                out.append(f"datastore transaction depth {a[k]} -> {c[k]}")
            elif k == "inmem":
                out.append(f"objects held by the in-memory datastore {a[k]} -> {c[k]}")
            else:
                out.append(f"{k} changed")
    return out


# ------------------------------------------------------------------ programs
def gen_prog(rng, depth, counter):
    n = rng.randint(1, 4)
    body = []
    for _ in range(n):
        r = rng.random()
        if r < 0.4:
            counter[0] += 1
            body.append(("P", counter[0]))
        elif r < 0.47:
            counter[0] += 1
            body.append(("G", counter[0], rng.choice(["copy", "move"])))  # ingest: the same effect as a put
        elif r < 0.52:
            body.append((rng.choice(["A", "C", "D"]),))  # associate / certify / disassociate: registry-only statements
        elif r < 0.62:
            body.append(("F",))
        elif depth > 0 and r < 0.82:
            body.append(("T", gen_prog(rng, depth - 1, counter)))
        elif depth > 0:
            body.append(("B", gen_prog(rng, depth - 1, counter)))
        else:
            counter[0] += 1
            body.append(("P", counter[0]))
    return body


def enc(body):
    out = []
    for st in body:
        if st[0] in ("P", "G"):
            out.append(f"P {st[1]}")  # an ingest is a put as far as files and registrations go
        elif st[0] == "F":
            out.append("F")
        elif st[0] in ("A", "C", "D"):
            continue  # registry-only statements do not touch what the model tracks; the snapshot oracle covers them
        else:
            out.append(f"{st[0]} {len([x for x in st[1] if x[0] not in ('A', 'C', 'D')])} " + enc(st[1]))
    return " ".join(out)


def programs(ctx, model_ok, tmp):
    from lsst.daf.butler import DatasetType

    rng = ctx.rng
    root = os.path.join(tmp, "p")
    b = repo.make_butler(root, run="r")
    b.registry.insertDimensionData("instrument", {"name": "I"})
    N = 400
    b.registry.insertDimensionData("detector", *[{"instrument": "I", "id": i, "full_name": f"d{i}"} for i in range(1, N)])
    dt = DatasetType("dt", {"instrument", "detector"}, "StructuredDataDict", universe=b.dimensions)
    b.registry.registerDatasetType(dt)
    req, impl = [], []

    def viol(what, key, replay):
        ctx.violations.append(core.Violation(what=what, key=key, replay=replay))

    from lsst.daf.butler.registry import ConflictingDefinitionError

    existing = b.put({"keep": 0}, dt, instrument="I", detector=N - 1)
    kinds = {"boom": Boom, "base": BoomBase, "kbd": KeyboardInterrupt, "exit": SystemExit}
    # registry-only statements work on datasets that exist before the block
    from astropy.time import Time
    from lsst.daf.butler import CollectionType, FileDataset, Timespan

    dtc = DatasetType("dtc", {"instrument", "detector"}, "StructuredDataDict", universe=b.dimensions, isCalibration=True)
    b.registry.registerDatasetType(dtc)
    b.registry.registerCollection("ptag", CollectionType.TAGGED)
    b.registry.registerCollection("pcal", CollectionType.CALIBRATION)
    calib_ds = b.put({"c": 1}, dtc, instrument="I", detector=N - 1)
    spare = [b.put({"s": i}, dt, instrument="I", detector=N - 2 - i) for i in range(3)]
    tick = [0]

    def execute(body, base, how):
        for st in body:
            if st[0] == "P":
                b.put({"v": st[1]}, dt, instrument="I", detector=base + st[1])
            elif st[0] == "G":
                from lsst.daf.butler import DatasetRef

                srcf = os.path.join(tmp, f"g{base + st[1]}.yaml")
                with open(srcf, "w") as fh:
                    fh.write(f"v: {st[1]}\n")
                b.ingest(FileDataset(path=srcf, refs=[DatasetRef(dt, {"instrument": "I", "detector": base + st[1]}, run="r")]), transfer=st[2])
                if st[2] == "copy":
                    os.remove(srcf)
            elif st[0] == "A":
                b.registry.associate("ptag", [spare[tick[0] % 3]])
                tick[0] += 1
            elif st[0] == "D":
                b.registry.disassociate("ptag", [spare[tick[0] % 3]])
                tick[0] += 1
            elif st[0] == "C":
                tick[0] += 1
                t0 = Time("2020-01-01T00:00:00", scale="tai")
                b.registry.certify("pcal", [calib_ds], Timespan(t0 + tick[0], t0 + tick[0] + 0.5))  # days: never overlapping
            elif st[0] == "F":
                if how == "reput":
                    # a statement that fails by itself: storing again under a resolved ref the datastore already holds
                    b.put({"keep": 1}, existing)
                    raise AssertionError("re-put of a stored resolved ref was accepted")
                if how == "reingest":
                    # likewise: ingesting a file for a dataset the datastore already holds must be refused harmlessly
                    srcf = os.path.join(tmp, "reingest.yaml")
                    with open(srcf, "w") as fh:
                        fh.write("keep: 0\n")
                    b.ingest(FileDataset(path=srcf, refs=[existing]), transfer="copy")
                    raise AssertionError("re-ingest of a stored ref was accepted")
                raise kinds[how]()
            elif st[0] == "B":
                with b.transaction():
                    execute(st[1], base, how)
            else:
                try:
                    with b.transaction():
                        execute(st[1], base, how)
                except ESCAPES + (ConflictingDefinitionError,):
                    pass

    corpus = [[("P", 1), ("T", [("P", 2), ("F",)]), ("P", 3), ("F",)]]  # the recorded witness first
    n_prog = 60 if ctx.quick() else 1500
    base = 0
    for n in range(n_prog + len(corpus)):
        counter = [0]
        body = corpus[n] if n < len(corpus) else gen_prog(rng, rng.choice([1, 2, 3]), counter)
        if n < len(corpus):
            counter[0] = 3
        if base + counter[0] + 6 >= N:
            break  # (the last five detectors belong to the datasets made before the first block: `existing`, `calib_ds`, `spare`)
        before = snapshot(b, root, [dt, dtc])
        failed = False
        how = "boom" if n < len(corpus) else rng.choice(["boom", "boom", "base", "kbd", "exit", "reput", "reingest"])
        try:
            with b.transaction():
                execute(body, base, how)
        except ESCAPES + (ConflictingDefinitionError,):
            failed = True
        after = snapshot(b, root, [dt, dtc])
        ctx.evaluations += 1
        ctx.count(f"failure-kind:{how}")
        text = enc(body)
        if "T " in text:
            ctx.nontrivial.add(text)
        ctx.count("failed-block" if failed else "committed-block")
        # what the implementation did, in the model's vocabulary
        new_files = sorted(set(after["files"]) - set(before["files"]))
        f_ids = sorted(int(f.split("_")[2][1:]) - base for f in new_files)  # dt_I_d<det>_r.yaml
        r_ids = sorted({int(eval(row[2])[0][1]) - base for rows in after["registry"].values() for row in rows} -
                       {int(eval(row[2])[0][1]) - base for rows in before["registry"].values() for row in rows})
        req.append(f"txn run 1 B {len([x for x in body if x[0] not in ('A', 'C', 'D')])} {text}")
        impl.append(f"failed={'true' if failed else 'false'} files={','.join(map(str, f_ids)) or '-'} reg={','.join(map(str, r_ids)) or '-'} "
                    f"depth={after['txn_depth']}")
        ctx.sample({"program": text, "implementation": impl[-1]}, cap=4)
        if failed:
            d = diff(before, after)
            if d:
                caught_inner = "T " in text
                viol(f"failed transaction block `{text}` (failure kind {how}): " + "; ".join(d),
                     "nested-caught-failure-leaks" if caught_inner and how == "boom" else f"block:{how}:{text}",
                     {"kind": "program", "program": text, "failure": how, "diff": d})
                # repair the damage so that later programs start clean
                b._datastore._transaction = None
        elif f_ids != r_ids:
            # model-free: what a committed block leaves behind is whole datasets — an inner block whose failure was caught
            # must have taken both its registry rows and its artifacts with it
            viol(f"committed block `{text}` (inner failures of kind {how} caught): datasets registered by it {r_ids}, artifacts written by it {f_ids} — "
                 f"a nested block that failed left {'registry rows' if set(r_ids) - set(f_ids) else 'artifacts'} behind",
                 f"committed-block-half-datasets:{how}", {"kind": "program", "program": text, "failure": how, "registered": r_ids, "artifacts": f_ids})
        elif after["txn_depth"] != before["txn_depth"]:
            viol(f"committed block `{text}` leaves the datastore transaction depth at {after['txn_depth']}", f"depth:{text}", {"kind": "program", "program": text})
            b._datastore._transaction = None
        base += counter[0]
    if model_ok:
        got = core.driver(req)
        nd = 0
        for line, m, i in zip(req, got, impl):
            if m != i:
                nd += 1
                if nd <= 5:
                    ctx.broken.append(f"correspondence: `{line}` model={m} implementation={i}")
        ctx.extra["correspondence_lines"] = len(req)
        ctx.extra["correspondence_disagreements"] = nd
    else:
        ctx.notes.append("model not built: correspondence skipped")


# ------------------------------------------------------------------ cached registry rows and prune inside blocks
def gen_prog2(rng, depth, counter, with_prune):
    body = []
    for _ in range(rng.randint(1, 4)):
        r = rng.random()
        if r < 0.33:
            counter[0] += 1
            body.append(("I", counter[0]))
        elif r < 0.58:
            body.append(("R",))
        elif r < 0.68 and with_prune:
            body.append(("U", rng.choice([1, 2])))
        elif r < 0.78:
            body.append(("F",))
        elif depth > 0 and r < 0.92:
            body.append(("T", gen_prog2(rng, depth - 1, counter, with_prune)))
        elif depth > 0:
            body.append(("B", gen_prog2(rng, depth - 1, counter, with_prune)))
        else:
            body.append(("R",))
    return body


def enc2(body):
    out = []
    for st in body:
        if st[0] in ("I", "U"):
            out.append(f"{st[0]} {st[1]}")
        elif st[0] in ("R", "F"):
            out.append(st[0])
        else:
            out.append(f"{st[0]} {len(st[1])} " + enc2(st[1]))
    return " ".join(out)


def cache_programs(ctx, model_ok, tmp):
    """Programs over registry rows that sit behind read-through caches (dimension records, dataset types,
    collection records inside a caching context) and over pruneDatasets inside blocks."""
    import contextlib

    from lsst.daf.butler import Butler, DatasetType

    rng = ctx.rng
    root = os.path.join(tmp, "c")
    b = repo.make_butler(root, run="r")
    b.registry.insertDimensionData("instrument", {"name": "I"})
    b.registry.insertDimensionData("detector", {"instrument": "I", "id": 100000, "full_name": "seed"})
    dt = DatasetType("dt", {"instrument", "detector"}, "StructuredDataDict", universe=b.dimensions)
    b.registry.registerDatasetType(dt)
    truth = Butler.from_config(root)
    req, impl = [], []
    W = 40  # ids per program window

    def viol(what, key, replay):
        ctx.violations.append(core.Violation(what=what, key=key, replay=replay))

    def mk(kind, base):
        if kind == "dim":
            return dict(
                ins=lambda n: b.registry.insertDimensionData("detector", {"instrument": "I", "id": base + n, "full_name": f"d{base + n}"}),
                seen=lambda n: b.registry.expandDataId(instrument="I", detector=base + n),
                truth=lambda: {r.id - base for r in truth.registry.queryDimensionRecords("detector") if base < r.id <= base + W},
            )
        if kind == "dstype":
            return dict(
                ins=lambda n: b.registry.registerDatasetType(DatasetType(f"ty{base + n}", {"instrument", "detector"}, "StructuredDataDict",
                                                                         universe=b.dimensions)),
                seen=lambda n: b.registry.getDatasetType(f"ty{base + n}"),
                truth=lambda: {int(d.name[2:]) - base for d in truth.registry.queryDatasetTypes() if d.name.startswith("ty")
                               and base < int(d.name[2:]) <= base + W},
            )
        return dict(
            ins=lambda n: b.registry.registerRun(f"run{base + n}"),
            seen=lambda n: b.registry.getCollectionType(f"run{base + n}"),
            truth=lambda: {int(c[3:]) - base for c in truth.registry.queryCollections() if c.startswith("run") and base < int(c[3:]) <= base + W},
        )

    corpus = [("dim", [("I", 3), ("R",), ("F",)]), ("dstype", [("I", 3), ("R",), ("F",)]), ("coll", [("I", 3), ("R",), ("F",)]),
              ("dim", [("U", 1), ("F",)]), ("dim", [("T", [("I", 3), ("R",), ("F",)]), ("R",)])]
    n_prog = 45 if ctx.quick() else 1200
    base = 0
    for n in range(n_prog + len(corpus)):
        counter = [2]
        if n < len(corpus):
            kind, body = corpus[n]
            counter[0] = 3
        else:
            kind = rng.choice(["dim", "dim", "dstype", "coll"])
            body = gen_prog2(rng, rng.choice([1, 2, 3]), counter, kind == "dim")
        api = mk(kind, base)
        cands = list(range(1, counter[0] + 1))

        def view():
            out = set()
            for i in cands:
                try:
                    api["seen"](i)
                    out.add(i)
                except Exception:
                    pass
            return out

        def execute(body):
            for st in body:
                if st[0] == "I":
                    api["ins"](st[1])
                elif st[0] == "R":
                    view()
                elif st[0] == "U":
                    ref = b.find_dataset(dt, instrument="I", detector=base + st[1], collections="r")
                    if ref is not None:
                        b.pruneDatasets([ref], purge=True, unstore=True, disassociate=True)
                elif st[0] == "F":
                    raise exc()
                elif st[0] == "B":
                    with b.transaction():
                        execute(st[1])
                else:
                    try:
                        with b.transaction():
                            execute(st[1])
                    except ESCAPES:
                        pass

        def observe():
            truth.registry.refresh()
            files = set()
            for dp, _, fs in os.walk(os.path.join(root, "r")):
                for f in fs:
                    d = int(f.split("_")[2][1:]) - base
                    if 0 < d <= W:
                        files.add(d)
            ds = {r.dataId["detector"] - base for r in truth.registry.queryDatasets(dt, collections="r") if base < r.dataId["detector"] <= base + W}
            return {"view": view(), "rows": api["truth"](), "ds": ds, "files": files}

        cm = b.registry.caching_context() if kind == "coll" else contextlib.nullcontext()
        with cm:
            api["ins"](1), api["ins"](2)
            if kind == "dim":
                for i in (1, 2):
                    b.put({"v": i}, dt, instrument="I", detector=base + i)
            before = observe()
            failed = False
            exc = Boom if n < len(corpus) else rng.choice([Boom, Boom, BoomBase, KeyboardInterrupt, SystemExit])
            try:
                with b.transaction():
                    execute(body)
            except ESCAPES:
                failed = True
            after = observe()
        text = enc2(body)
        ctx.evaluations += 1
        ctx.count(f"cache-program:{kind}:{'failed' if failed else 'committed'}")
        if "I " in text and "R" in text.split() and ("F" in text.split()):
            ctx.nontrivial.add((kind, text))
        fmt = lambda s_: ",".join(map(str, sorted(s_))) or "-"  # noqa: E731
        req.append(f"txc run 1 {fmt(before['rows'])} {fmt(before['ds'])} B {len(body)} {text}")
        impl.append(f"failed={'true' if failed else 'false'} view={fmt(after['view'])} rows={fmt(after['rows'])} ds={fmt(after['ds'])} files={fmt(after['files'])}")
        ctx.sample({"kind": kind, "program": text, "implementation": impl[-1]}, cap=4)
        what = {"dim": "dimension records (expandDataId)", "dstype": "dataset types (getDatasetType)",
                "coll": "collections inside a caching context (getCollectionType)"}[kind]
        if after["view"] != after["rows"]:
            viol(f"after block `{text}` ({'failed' if failed else 'committed'}) the cached view of {what} shows {sorted(after['view'])} "
                 f"while the database has {sorted(after['rows'])}", f"rolled-back-rows-stay-cached:{kind}" if failed or "T " in text else f"cache:{kind}:{text}",
                 {"kind": "cache-program", "cache": kind, "program": text})
        if failed:
            if (after["rows"], after["ds"]) != (before["rows"], before["ds"]):
                viol(f"failed block `{text}`: registry rows {sorted(before['rows'])}/{sorted(before['ds'])} -> {sorted(after['rows'])}/{sorted(after['ds'])}",
                     f"cache-block-registry:{text}", {"kind": "cache-program", "cache": kind, "program": text})
            if after["files"] != before["files"]:
                toks = text.split()
                pruned_ids = {int(toks[i + 1]) for i, t_ in enumerate(toks) if t_ == "U"}
                # the listed finding covers exactly: artifacts of datasets pruned inside the block are gone, nothing else differs
                pruned = after["files"] <= before["files"] and (before["files"] - after["files"]) <= pruned_ids
                viol(f"failed block `{text}`: artifacts {sorted(before['files'])} -> {sorted(after['files'])} while the registry still has datasets "
                     f"{sorted(after['ds'])}", "prune-inside-failed-block-loses-artifact" if pruned else f"cache-block-files:{text}",
                     {"kind": "cache-program", "cache": kind, "program": text})
        base += W
    if model_ok:
        got = core.driver(req)
        nd = 0
        for line, m, i in zip(req, got, impl):
            if m != i:
                nd += 1
                if nd <= 5:
                    ctx.broken.append(f"correspondence: `{line}` model={m} implementation={i}")
        ctx.extra["cache_correspondence_lines"] = len(req)
        ctx.extra["cache_correspondence_disagreements"] = nd


# ------------------------------------------------------------------ particular blocks and calls
def special_blocks(ctx, tmp):
    """(1) A failing block that removes, with pruneDatasets, a dataset it has itself ingested: the undo of that ingest finds its
    file gone already — the undo of the *earlier* put must still happen.  (2) One associate() over refs of two dataset types of
    which the later one conflicts: refused, and nothing of it stays — at top level, and caught inside a block that commits."""
    from lsst.daf.butler import Butler, CollectionType, DatasetRef, DatasetType, FileDataset
    from lsst.daf.butler.registry import ConflictingDefinitionError

    def viol(what, key, replay):
        ctx.violations.append(core.Violation(what=what, key=key, replay=replay))

    root = os.path.join(tmp, "special")
    b = repo.make_butler(root, run="r1")
    repo.basic_dimensions(b, detectors=(1, 2, 3, 4))
    dta = DatasetType("sa", {"instrument", "detector"}, "StructuredDataDict", universe=b.dimensions)
    dtb = DatasetType("sb", {"instrument", "detector"}, "StructuredDataDict", universe=b.dimensions)
    b.registry.registerDatasetType(dta), b.registry.registerDatasetType(dtb)
    b.registry.registerCollection("stag", CollectionType.TAGGED)
    keep = b.put({"keep": 1}, dta, instrument="I", detector=4)
    # ---- (1)
    src = os.path.join(tmp, "special_in.yaml")
    with open(src, "w") as fh:
        fh.write("v: 2\n")
    before = snapshot(b, root, [dta, dtb])
    try:
        with b.transaction():
            b.put({"v": 1}, dta, instrument="I", detector=1)
            rb = DatasetRef(dta, {"instrument": "I", "detector": 2}, run="r1")
            b.ingest(FileDataset(path=src, refs=[rb]), transfer="copy")
            b.pruneDatasets([rb], purge=True, unstore=True, disassociate=True)
            raise Boom()
    except Boom:
        pass
    ctx.evaluations += 1
    ctx.count("special:block-prunes-its-own-ingest")
    d = diff(before, snapshot(b, root, [dta, dtb]))
    if d:
        viol("failed block `put A; ingest(copy) B; pruneDatasets([B], purge, unstore); raise`: " + "; ".join(d), "block-prunes-own-ingest",
             {"kind": "special", "scenario": "block-prunes-its-own-ingest", "diff": d})
        b._datastore._transaction = None
    # ---- (2)
    a1 = b.put({"a": 1}, dta, instrument="I", detector=1)
    b.registry.registerRun("r2")
    b1 = b.put({"b": 1}, dtb, instrument="I", detector=1)
    b1_twin = b.put({"b": 2}, dtb, instrument="I", detector=1, run="r2")
    b.registry.associate("stag", [b1_twin])  # the slot (sb, detector 1) of the tag is taken
    for how in ("top-level", "caught-inside-a-committing-block"):
        before = snapshot(b, root, [dta, dtb])
        refused = False
        try:
            if how == "top-level":
                b.registry.associate("stag", [a1, b1])
            else:
                with b.transaction():
                    b.put({"v": 3}, dta, instrument="I", detector=3)
                    try:
                        with b.transaction():
                            b.registry.associate("stag", [a1, b1])
                    except ConflictingDefinitionError:
                        refused = True
        except ConflictingDefinitionError:
            refused = True
        ctx.evaluations += 1
        ctx.count(f"special:associate-two-types:{how}")
        after = snapshot(b, root, [dta, dtb])
        tag_before = {k_: v_ for k_, v_ in before["registry"].items() if k_[0] == "stag"}
        tag_after = {k_: v_ for k_, v_ in after["registry"].items() if k_[0] == "stag"}
        if not refused:
            viol(f"associate of refs of two dataset types, the later one conflicting ({how}): accepted", f"associate-two-types-accepted:{how}",
                 {"kind": "special", "scenario": "associate-two-types", "how": how})
        elif tag_after != tag_before:
            viol(f"associate of refs of two dataset types, the later one conflicting ({how}): refused, but the TAGGED collection changed: "
                 f"{ {k_[1]: len(v_) for k_, v_ in tag_before.items()} } -> { {k_[1]: len(v_) for k_, v_ in tag_after.items()} } datasets per type",
                 f"associate-two-types:{how}", {"kind": "special", "scenario": "associate-two-types", "how": how})
    # ---- (3) a removal that fails inside a block which catches the failure and commits: all-or-nothing, and the next emptying of the
    # trash must not take the artifacts of datasets that are still registered
    b.registry.registerRun("r_held")
    held = [b.put({"h": d_}, dta, instrument="I", detector=d_, run="r_held") for d_ in (1, 2)]
    b.registry.registerCollection("holder", CollectionType.CHAINED)
    b.registry.setCollectionChain("holder", ["r_held"])
    for what, removal in (("removeRuns", lambda: b.removeRuns(["r_held"], unstore=True)),):
        before = snapshot(b, root, [dta, dtb])
        failed = None
        with b.transaction():
            b.registry.associate("stag", [a1]) if False else None
            try:
                removal()
            except Exception as e:
                failed = type(e).__name__
        ctx.evaluations += 1
        ctx.count(f"special:failed-{what}-caught-inside-a-committing-block")
        b._datastore.emptyTrash()
        fresh_b = Butler.from_config(root)
        problems = []
        if failed is None:
            problems.append("the removal of a run held by a CHAINED collection was accepted")
        else:
            for r_ in held:
                if fresh_b.registry.getDataset(r_.id) is None:
                    problems.append(f"dataset {r_.dataId['detector']} of the run is no longer registered")
                    continue
                try:
                    if fresh_b.get(r_) != {"h": r_.dataId["detector"]}:
                        problems.append(f"dataset {r_.dataId['detector']} changed")
                except Exception as e:
                    problems.append(f"dataset {r_.dataId['detector']} of the run is still registered but cannot be read after the next trash emptying ({type(e).__name__})")
        if problems:
            viol(f"{what} of a run held by a CHAINED collection fails ({failed}) inside a block that catches the failure and commits: " + "; ".join(problems[:2]),
                 f"failed-removal-caught-in-committing-block:{what}", {"kind": "special", "scenario": "failed-removal-in-committing-block", "removal": what, "problems": problems})
    try:
        if b.get(keep) != {"keep": 1}:
            viol("special blocks: an unrelated dataset changed", "special-other", {"kind": "special"})
    except Exception as e:
        viol(f"special blocks: an unrelated dataset is unreadable ({type(e).__name__})", "special-other", {"kind": "special"})


# ------------------------------------------------------------------ fault enumeration
class Injector:
    """Raises at the k-th call of any wrapped boundary method."""

    def __init__(self):
        self.k = None
        self.count = 0
        self.log = []
        self.patched = []
        self.exc_override = None  # e.g. KeyboardInterrupt: a failure that `except Exception` does not swallow

    def wrap(self, cls, name, exc):
        orig = getattr(cls, name, None)
        if orig is None:
            return
        inj = self

        def wrapper(*a, **kw):
            if inj.k is not None:
                inj.count += 1
                inj.log.append(f"{cls.__name__}.{name}")
                if inj.count == inj.k:
                    raise (inj.exc_override or exc)(f"injected fault at boundary {inj.k}: {cls.__name__}.{name}")
            return orig(*a, **kw)

        setattr(cls, name, wrapper)
        self.patched.append((cls, name, orig))

    def restore(self):
        for cls, name, orig in self.patched:
            setattr(cls, name, orig)


def faults(ctx, tmp):
    import sqlalchemy.exc
    from lsst.daf.butler import Butler, DatasetType, FileDataset
    from lsst.daf.butler.registry.interfaces import Database
    from lsst.resources.file import FileResourcePath

    rng = ctx.rng

    def viol(what, key, replay):
        ctx.violations.append(core.Violation(what=what, key=key, replay=replay))

    inj = Injector()
    for name in ("insert", "replace", "ensure", "delete", "deleteWhere", "update"):
        for cls in {Database} | set(Database.__subclasses__()):
            if name in cls.__dict__:
                inj.wrap(cls, name, InjectedFault)
    for name in ("transfer_from", "write", "remove", "mkdir"):
        inj.wrap(FileResourcePath, name, InjectedFault)

    def fresh(tag, chained=False):
        root = os.path.join(tmp, tag)
        if chained:
            # in-memory datastore + two file datastores behind a ChainedDatastore
            from lsst.daf.butler import Config

            c = Config()
            c["datastore", "cls"] = "lsst.daf.butler.datastores.chainedDatastore.ChainedDatastore"
            c["datastore", "datastores"] = [
                {"datastore": {"cls": "lsst.daf.butler.datastores.inMemoryDatastore.InMemoryDatastore"}},
                {"datastore": {"cls": "lsst.daf.butler.datastores.fileDatastore.FileDatastore", "root": "<butlerRoot>/fs1", "records": {"table": "fs1_records"}}},
                {"datastore": {"cls": "lsst.daf.butler.datastores.fileDatastore.FileDatastore", "root": "<butlerRoot>/fs2", "records": {"table": "fs2_records"}}},
            ]
            Butler.makeRepo(root, config=c)
        b = repo.make_butler(root, run="r1")
        repo.basic_dimensions(b, detectors=(1, 2, 3, 4))
        dt = DatasetType("dt", {"instrument", "detector"}, "StructuredDataDict", universe=b.dimensions)
        b.registry.registerDatasetType(dt)
        return root, b, dt

    def external_files(tag, n):
        d = os.path.join(tmp, tag)
        os.makedirs(d, exist_ok=True)
        out = []
        for i in range(n):
            p = os.path.join(d, f"ext{i}.yaml")
            with open(p, "w") as f:
                f.write(f"v: {i}\n")
            out.append(p)
        return out

    try:
        # ---------------- additive operations
        def scenario_put(b, dt, root, aux):
            b.put({"v": 9}, dt, instrument="I", detector=2)

        def scenario_put_in_block(b, dt, root, aux):
            with b.transaction():
                b.put({"v": 1}, dt, instrument="I", detector=2)
                b.put({"v": 2}, dt, instrument="I", detector=3)
                b.registry.associate("tag", [aux["existing"]])

        def scenario_ingest(mode):
            def f(b, dt, root, aux):
                from lsst.daf.butler import DatasetRef
                files = aux["files"]
                ds = [FileDataset(path=p, refs=[DatasetRef(dt, {"instrument": "I", "detector": 2 + i}, run="r1")]) for i, p in enumerate(files)]
                b.ingest(*ds, transfer=mode)
            return f

        def scenario_import(b, dt, root, aux):
            b.import_(directory=aux["export_dir"], filename=os.path.join(aux["export_dir"], "export.yaml"), transfer="copy")

        def scenario_transfer(b, dt, root, aux):
            b.transfer_from(aux["src"], aux["src_refs"], transfer="copy", register_dataset_types=False)

        additive = [("put", scenario_put), ("put-in-block", scenario_put_in_block), ("ingest-copy", scenario_ingest("copy")),
                    ("ingest-move", scenario_ingest("move")), ("import", scenario_import), ("transfer_from", scenario_transfer),
                    ("put@chained", scenario_put), ("put-in-block@chained", scenario_put_in_block), ("ingest-copy@chained", scenario_ingest("copy")),
                    ("transfer_from@chained", scenario_transfer)]
        # a source repository for import / transfer
        sroot, sb, sdt = fresh("src")
        srefs = [sb.put({"s": i}, sdt, instrument="I", detector=i) for i in (2, 3)]
        export_dir = os.path.join(tmp, "export")
        os.makedirs(export_dir)
        with sb.export(directory=export_dir, filename=os.path.join(export_dir, "export.yaml"), transfer="copy") as ex:
            ex.saveDatasets(srefs)
        for name, scen in additive:
            k = 1
            reached_effect = False
            while True:
                tag = f"f_{name}_{k}"
                root, b, dt = fresh(tag, chained=name.endswith("@chained"))
                from lsst.daf.butler import CollectionType
                b.registry.registerCollection("tag", CollectionType.TAGGED)
                existing = b.put({"keep": 1}, dt, instrument="I", detector=1)
                aux = {"existing": existing, "files": external_files(tag + "_ext", 2), "export_dir": export_dir, "src": sb, "src_refs": srefs}
                ext_before = {p: open(p).read() for p in aux["files"]}
                before = snapshot(b, root, [dt])
                inj.k, inj.count, inj.log = k, 0, []
                failed = None
                try:
                    scen(b, dt, root, aux)
                except Boom:
                    failed = "Boom"
                except Exception as e:
                    failed = type(e).__name__
                finally:
                    inj.k = None
                after = snapshot(b, root, [dt])
                ctx.evaluations += 1
                ctx.count(f"fault:{name}")
                if inj.count < k:
                    break  # the operation completed without reaching boundary k: all boundaries enumerated
                where = inj.log[k - 1] if len(inj.log) >= k else "?"
                if failed is None:
                    # the fault was swallowed: the operation must then have completed consistently (nothing to check here)
                    ctx.count(f"fault-swallowed:{name}")
                else:
                    d = diff(before, after)
                    if any(x.startswith("objects held by the in-memory") for x in d):
                        # A failed chained put leaves the object with the in-memory child (ChainedDatastore registers its undo only
                        # after every child succeeded).  Nothing a registry query or the datastore root shows changes, so this is
                        # outside C07's statement: recorded as an observation.
                        ctx.count("observation:in-memory-child-keeps-object-of-failed-chained-put")
                        d = [x for x in d if not x.startswith("objects held by the in-memory")]
                    ctx.nontrivial.add((name, k))
                    if name == "ingest-move":
                        # a failed move-ingest must not lose the user's files either
                        for p, content in ext_before.items():
                            in_place = os.path.exists(p) and open(p).read() == content
                            if not in_place:
                                d.append(f"external file {os.path.basename(p)} was moved away and not restored")
                    if d:
                        viol(f"{name} with a fault at boundary {k} ({where}) -> {failed}: " + "; ".join(d), f"fault:{name}:{where}:{k}",
                             {"kind": "fault", "operation": name, "k": k, "boundary": where, "diff": d})
                    try:
                        got = b.get(existing)
                        if got != {"keep": 1}:
                            viol(f"{name} with a fault at boundary {k} ({where}) damaged an unrelated dataset", f"fault-other:{name}:{k}", {"kind": "fault", "operation": name, "k": k})
                    except Exception as e:
                        viol(f"{name} with a fault at boundary {k} ({where}): unrelated dataset unreadable afterwards ({type(e).__name__})",
                             f"fault-other:{name}:{k}", {"kind": "fault", "operation": name, "k": k})
                del b
                shutil.rmtree(root, ignore_errors=True)
                shutil.rmtree(os.path.join(tmp, tag + "_ext"), ignore_errors=True)
                k += 1
                if k > 60:
                    break
            ctx.extra.setdefault("fault_boundaries", {})[name] = k - 1

        # ---------------- removals: all-or-nothing in the registry, non-targets intact, next emptyTrash completes
        # one call over two runs of which the second cannot be removed (it is a member of a CHAINED collection): the call
        # fails, and all-or-nothing means the first run and its datasets are still there — for a fresh client too
        from lsst.daf.butler import Butler as _B, CollectionType as _CT

        for order in (("r2", "r3"), ("r3", "r2")):
            root, b, dt = fresh("r_two_runs_" + order[0])
            keep = b.put({"keep": 1}, dt, instrument="I", detector=1)
            b.registry.registerRun("r2"), b.registry.registerRun("r3")
            t1 = b.put({"t": 1}, dt, instrument="I", detector=2, run="r2")
            t2 = b.put({"t": 2}, dt, instrument="I", detector=3, run="r3")
            b.registry.registerCollection("holds_r3", _CT.CHAINED)
            b.registry.setCollectionChain("holds_r3", ["r3"])
            before = snapshot(b, root, [dt])
            try:
                b.removeRuns(list(order), unstore=True)
                failed = None
            except Exception as e:
                failed = type(e).__name__
            ctx.evaluations += 1
            ctx.count("removeRuns-two-runs-one-undeletable")
            problems = []
            if failed is None:
                problems.append("the call was accepted although run r3 is a member of a CHAINED collection")
            try:
                b._datastore.emptyTrash()
            except Exception as e:
                problems.append(f"emptyTrash afterwards raised {type(e).__name__}")
            fresh_b = _B.from_config(root, writeable=False)
            try:
                if fresh_b.get(keep) != {"keep": 1}:
                    problems.append("a dataset that was not targeted changed")
            except Exception as e:
                problems.append(f"a dataset that was not targeted is unreadable ({type(e).__name__})")
            if failed is not None:
                # all-or-nothing in the registry (what a fresh client sees); artifacts are the next trash emptying's business
                after = snapshot(fresh_b, root, [dt])
                if after["registry"] != before["registry"] or after["collections"] != before["collections"]:
                    lost = [c_ for c_ in before["collections"] if c_ not in after["collections"]]
                    problems.append(f"the failed call changed the registry: collections lost {lost}, dataset rows "
                                    f"{sum(map(len, before['registry'].values()))} -> {sum(map(len, after['registry'].values()))}")
                for r_, want_ in ((t1, {"t": 1}), (t2, {"t": 2})):
                    if fresh_b.registry.getDataset(r_.id) is not None and bool(fresh_b.exists(r_, full_check=True)):
                        try:
                            if fresh_b.get(r_) != want_:
                                problems.append(f"dataset of run {r_.run} changed")
                        except Exception as e:
                            problems.append(f"dataset of run {r_.run} is reported as existing but cannot be read ({type(e).__name__})")
            if problems:
                viol(f"removeRuns({list(order)}) where r3 cannot be removed -> {failed}: " + "; ".join(problems[:4]), f"removeRuns-two-runs:{order[0]}",
                     {"kind": "removal", "operation": "removeRuns", "runs": list(order), "problems": problems})
            del b, fresh_b
            shutil.rmtree(root, ignore_errors=True)

        for name in ("prune-purge", "removeRuns", "prune-purge-interrupted"):
            # (the third round: the same removal hit by a KeyboardInterrupt, which no `except Exception` along the way swallows)
            inj.exc_override = KeyboardInterrupt if name.endswith("interrupted") else None
            k = 1
            while True:
                tag = f"r_{name}_{k}"
                root, b, dt = fresh(tag)
                keep = b.put({"keep": 1}, dt, instrument="I", detector=1)
                b.registry.registerRun("r2")
                t1 = b.put({"t": 1}, dt, instrument="I", detector=2, run="r2")
                t2 = b.put({"t": 2}, dt, instrument="I", detector=3, run="r2")
                before = snapshot(b, root, [dt])
                inj.k, inj.count, inj.log = k, 0, []
                failed = None
                try:
                    if name.startswith("prune-purge"):
                        b.pruneDatasets([t1, t2], purge=True, unstore=True, disassociate=True)
                    else:
                        b.removeRuns(["r2"], unstore=True)
                except BaseException as e:  # noqa: BLE001
                    failed = type(e).__name__
                finally:
                    inj.k = None
                ctx.evaluations += 1
                ctx.count(f"fault:{name}")
                if inj.count < k:
                    break
                where = inj.log[k - 1] if len(inj.log) >= k else "?"
                ctx.nontrivial.add((name, k))
                after = snapshot(b, root, [dt])
                problems = []
                gone = [r for r in (t1, t2) if b.registry.getDataset(r.id) is None]
                if failed is not None and len(gone) not in (0, 2):
                    problems.append(f"registry removed {len(gone)} of the 2 targets")
                try:
                    if b.get(keep) != {"keep": 1}:
                        problems.append("a dataset that was not targeted changed")
                except Exception as e:
                    problems.append(f"a dataset that was not targeted is unreadable ({type(e).__name__})")
                for r in (t1, t2):
                    if b.registry.getDataset(r.id) is not None:
                        # still registered: must still be fully usable or at least not half-recorded
                        try:
                            ok = b.get(r) in ({"t": 1}, {"t": 2})
                        except Exception:
                            ok = False
                        ex = b.exists(r, full_check=True)
                        if not ok and bool(ex):
                            problems.append(f"target {r.dataId['detector']} is reported as existing but cannot be read")
                # the next trash emptying removes whatever artifacts were left behind
                try:
                    b._datastore.emptyTrash()
                except Exception as e:
                    problems.append(f"emptyTrash afterwards raised {type(e).__name__}")
                final = snapshot(b, root, [dt])
                for r, det in ((t1, 2), (t2, 3)):
                    registered = b.registry.getDataset(r.id) is not None
                    art = [f for f in final["files"] if f"_I_d{det}_r2" in f]
                    if not registered and art:
                        if failed is not None:
                            problems.append(f"artifact of removed target {det} survives the next trash emptying")
                        else:
                            # The fault was swallowed (ignore_errors=True in Datastore.trash /
                            # emptyTrash) and the removal *succeeded* from the caller's point of
                            # view.  C07 speaks about removals that fail, so this is outside the
                            # property; it is recorded as an observation only.
                            ctx.count("observation:swallowed-fault-orphans-artifact")
                            ctx.extra.setdefault("observations", []).append(
                                f"{name}: fault at boundary {k} ({where}) is swallowed, the removal returns normally and the artifact of target {det} is orphaned")
                if problems:
                    viol(f"{name} with a fault at boundary {k} ({where}) -> {failed}: " + "; ".join(problems), f"fault:{name}:{where}:{k}",
                         {"kind": "fault", "operation": name, "k": k, "boundary": where, "problems": problems})
                del b
                shutil.rmtree(root, ignore_errors=True)
                k += 1
                if k > 60:
                    break
            ctx.extra.setdefault("fault_boundaries", {})[name] = k - 1
        inj.exc_override = None
    finally:
        inj.restore()


def replay(ctx, content):
    print("replay:", content.get("what"))
    run(ctx)
    return core.finish(ctx)
