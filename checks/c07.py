"""C07 — a failed operation or transaction block leaves registry and datastore untouched.

Model: Model/Txn.lean (Butler.transaction() = registry savepoints + the datastore's undo-log stack);
theorems in Props/C07.lean (failed_block_restores for every program and nesting depth, txn_state_restored,
the regression witness of the earlier code).
Tie: C — generated transaction programs (nested blocks, caught / uncaught inner failures) executed on a real
Butler and compared with the model (artifacts, registered datasets, datastore transaction depth).
Fault enumeration (validation of the parts no model expresses): additive operations (put, ingest copy/move,
import, transfer_from) and removals (pruneDatasets, removeRuns) with an exception injected at the k-th I/O or
SQL boundary, for every k the operation reaches.
Oracle (model-free): the observable state (registry dump + recursive listing with content) equals the
snapshot taken before the block / operation; for removals: registry all-or-nothing, non-targets intact,
leftovers removed by the next trash emptying.
"""
from __future__ import annotations

import hashlib
import os
import shutil

from vlib import core, repo

LEVEL = "proof"
LEAN_TARGETS = ["ButlerModel.Props.C07", "driver"]


class Boom(Exception):
    pass


class InjectedFault(OSError):
    pass


def run(ctx):
    ctx.rule = (
        "transaction programs: all programs of a seeded generator over {put, raise, nested block, try-block with caught failure} "
        "up to depth 3 and 7 statements, each executed on a real Butler; fault enumeration: for each of put, put inside a "
        "block after other puts, ingest(copy), ingest(move), import_, transfer_from, pruneDatasets(purge), removeRuns: one "
        "fault injected at the k-th SQL/file boundary for every k reached (Database.insert/replace/ensure/delete/deleteWhere/"
        "update, ResourcePath.transfer_from/write/remove/mkdir); non-trivial = programs with a caught inner failure or a "
        "fault position at which some effect had already happened"
    )
    ctx.assumptions = [
        "SQLite savepoints/transactions roll back atomically",
        "faults are injected as exceptions at call boundaries of the wrapped methods (not inside C extensions or the OS)",
    ]
    with core.Lock():
        built = core.lean_build(ctx, LEAN_TARGETS)
        if built:
            core.lean_audit(ctx, ["ButlerModel.Props.C07"])
            if not ctx.quick():
                core.leanchecker(ctx, ["ButlerModel.Props.C07"])
    with repo.Scratch("verif-c07-") as tmp:
        programs(ctx, built, tmp)
        faults(ctx, tmp)


# ------------------------------------------------------------------ observation
def snapshot(b, root, dts):
    files = {}
    for dp, _, fs in os.walk(root):
        for f in fs:
            p = os.path.join(dp, f)
            rel = os.path.relpath(p, root)
            if rel.startswith("gen3.sqlite3") or rel == "butler.yaml":
                continue
            with open(p, "rb") as fh:
                files[rel] = hashlib.sha1(fh.read()).hexdigest()[:10]
    regd = {}
    for c in sorted(b.registry.queryCollections()):
        for dt in dts:
            try:
                rows = sorted((str(r.id), r.run, str(sorted(r.dataId.required.items()))) for r in b.registry.queryDatasets(dt, collections=[c]))
            except Exception as e:
                rows = [type(e).__name__]
            regd[(c, dt.name)] = rows
    depth = 0
    t = b._datastore._transaction
    while t is not None:
        depth += 1
        t = t.parent
    return {"files": files, "registry": regd, "collections": sorted(b.registry.queryCollections()), "txn_depth": depth}


def diff(a, c):
    out = []
    for k in ("files", "registry", "collections", "txn_depth"):
        if a[k] != c[k]:
            if k == "files":
                out.append(f"artifacts changed: +{sorted(set(c[k]) - set(a[k]))} -{sorted(set(a[k]) - set(c[k]))}"
                           + (" (content changed)" if any(a[k].get(f) != c[k].get(f) for f in set(a[k]) & set(c[k])) else ""))
            elif k == "txn_depth":
                out.append(f"datastore transaction depth {a[k]} -> {c[k]}")
            else:
                out.append(f"{k} changed")
    return out


# ------------------------------------------------------------------ programs
def gen_prog(rng, depth, counter):
    n = rng.randint(1, 4)
    body = []
    for _ in range(n):
        r = rng.random()
        if r < 0.5:
            counter[0] += 1
            body.append(("P", counter[0]))
        elif r < 0.62:
            body.append(("F",))
        elif depth > 0 and r < 0.82:
            body.append(("T", gen_prog(rng, depth - 1, counter)))
        elif depth > 0:
            body.append(("B", gen_prog(rng, depth - 1, counter)))
        else:
            counter[0] += 1
            body.append(("P", counter[0]))
    return body


def enc(body):
    out = []
    for st in body:
        if st[0] == "P":
            out.append(f"P {st[1]}")
        elif st[0] == "F":
            out.append("F")
        else:
            out.append(f"{st[0]} {len(st[1])} " + enc(st[1]))
    return " ".join(out)


def programs(ctx, model_ok, tmp):
    from lsst.daf.butler import DatasetType

    rng = ctx.rng
    root = os.path.join(tmp, "p")
    b = repo.make_butler(root, run="r")
    b.registry.insertDimensionData("instrument", {"name": "I"})
    N = 400
    b.registry.insertDimensionData("detector", *[{"instrument": "I", "id": i, "full_name": f"d{i}"} for i in range(1, N)])
    dt = DatasetType("dt", {"instrument", "detector"}, "StructuredDataDict", universe=b.dimensions)
    b.registry.registerDatasetType(dt)
    req, impl = [], []

    def viol(what, key, replay):
        ctx.violations.append(core.Violation(what=what, key=key, replay=replay))

    def execute(body, base):
        for st in body:
            if st[0] == "P":
                b.put({"v": st[1]}, dt, instrument="I", detector=base + st[1])
            elif st[0] == "F":
                raise Boom()
            elif st[0] == "B":
                with b.transaction():
                    execute(st[1], base)
            else:
                try:
                    with b.transaction():
                        execute(st[1], base)
                except Boom:
                    pass

    corpus = [[("P", 1), ("T", [("P", 2), ("F",)]), ("P", 3), ("F",)]]  # the recorded witness first
    n_prog = 60 if ctx.quick() else 1500
    base = 0
    for n in range(n_prog + len(corpus)):
        counter = [0]
        body = corpus[n] if n < len(corpus) else gen_prog(rng, rng.choice([1, 2, 3]), counter)
        if n < len(corpus):
            counter[0] = 3
        if base + counter[0] + 2 >= N:
            break
        before = snapshot(b, root, [dt])
        failed = False
        try:
            with b.transaction():
                execute(body, base)
        except Boom:
            failed = True
        after = snapshot(b, root, [dt])
        ctx.evaluations += 1
        text = enc(body)
        if "T " in text:
            ctx.nontrivial.add(text)
        ctx.count("failed-block" if failed else "committed-block")
        # what the implementation did, in the model's vocabulary
        new_files = sorted(set(after["files"]) - set(before["files"]))
        f_ids = sorted(int(f.split("_")[2][1:]) - base for f in new_files)  # dt_I_d<det>_r.yaml
        r_ids = sorted({int(eval(row[2])[0][1]) - base for rows in after["registry"].values() for row in rows} -
                       {int(eval(row[2])[0][1]) - base for rows in before["registry"].values() for row in rows})
        req.append(f"txn run 1 B {len(body)} {text}")
        impl.append(f"failed={'true' if failed else 'false'} files={','.join(map(str, f_ids)) or '-'} reg={','.join(map(str, r_ids)) or '-'} "
                    f"depth={after['txn_depth']}")
        ctx.sample({"program": text, "implementation": impl[-1]}, cap=4)
        if failed:
            d = diff(before, after)
            if d:
                caught_inner = "T " in text
                viol(f"failed transaction block `{text}`: " + "; ".join(d), "nested-caught-failure-leaks" if caught_inner else f"block:{text}",
                     {"kind": "program", "program": text, "diff": d})
                # repair the damage so that later programs start clean
                b._datastore._transaction = None
        elif after["txn_depth"] != before["txn_depth"]:
            viol(f"committed block `{text}` leaves the datastore transaction depth at {after['txn_depth']}", f"depth:{text}", {"kind": "program", "program": text})
            b._datastore._transaction = None
        base += counter[0]
    if model_ok:
        got = core.driver(req)
        nd = 0
        for line, m, i in zip(req, got, impl):
            if m != i:
                nd += 1
                if nd <= 5:
                    ctx.broken.append(f"correspondence: `{line}` model={m} implementation={i}")
        ctx.extra["correspondence_lines"] = len(req)
        ctx.extra["correspondence_disagreements"] = nd
    else:
        ctx.notes.append("model not built: correspondence skipped")


# ------------------------------------------------------------------ fault enumeration
class Injector:
    """Raises at the k-th call of any wrapped boundary method."""

    def __init__(self):
        self.k = None
        self.count = 0
        self.log = []
        self.patched = []

    def wrap(self, cls, name, exc):
        orig = getattr(cls, name, None)
        if orig is None:
            return
        inj = self

        def wrapper(*a, **kw):
            if inj.k is not None:
                inj.count += 1
                inj.log.append(f"{cls.__name__}.{name}")
                if inj.count == inj.k:
                    raise exc(f"injected fault at boundary {inj.k}: {cls.__name__}.{name}")
            return orig(*a, **kw)

        setattr(cls, name, wrapper)
        self.patched.append((cls, name, orig))

    def restore(self):
        for cls, name, orig in self.patched:
            setattr(cls, name, orig)


def faults(ctx, tmp):
    import sqlalchemy.exc
    from lsst.daf.butler import Butler, DatasetType, FileDataset
    from lsst.daf.butler.registry.interfaces import Database
    from lsst.resources.file import FileResourcePath

    rng = ctx.rng

    def viol(what, key, replay):
        ctx.violations.append(core.Violation(what=what, key=key, replay=replay))

    inj = Injector()
    for name in ("insert", "replace", "ensure", "delete", "deleteWhere", "update"):
        for cls in {Database} | set(Database.__subclasses__()):
            if name in cls.__dict__:
                inj.wrap(cls, name, InjectedFault)
    for name in ("transfer_from", "write", "remove", "mkdir"):
        inj.wrap(FileResourcePath, name, InjectedFault)

    def fresh(tag):
        root = os.path.join(tmp, tag)
        b = repo.make_butler(root, run="r1")
        repo.basic_dimensions(b, detectors=(1, 2, 3, 4))
        dt = DatasetType("dt", {"instrument", "detector"}, "StructuredDataDict", universe=b.dimensions)
        b.registry.registerDatasetType(dt)
        return root, b, dt

    def external_files(tag, n):
        d = os.path.join(tmp, tag)
        os.makedirs(d, exist_ok=True)
        out = []
        for i in range(n):
            p = os.path.join(d, f"ext{i}.yaml")
            with open(p, "w") as f:
                f.write(f"v: {i}\n")
            out.append(p)
        return out

    try:
        # ---------------- additive operations
        def scenario_put(b, dt, root, aux):
            b.put({"v": 9}, dt, instrument="I", detector=2)

        def scenario_put_in_block(b, dt, root, aux):
            with b.transaction():
                b.put({"v": 1}, dt, instrument="I", detector=2)
                b.put({"v": 2}, dt, instrument="I", detector=3)
                b.registry.associate("tag", [aux["existing"]])

        def scenario_ingest(mode):
            def f(b, dt, root, aux):
                from lsst.daf.butler import DatasetRef
                files = aux["files"]
                ds = [FileDataset(path=p, refs=[DatasetRef(dt, {"instrument": "I", "detector": 2 + i}, run="r1")]) for i, p in enumerate(files)]
                b.ingest(*ds, transfer=mode)
            return f

        def scenario_import(b, dt, root, aux):
            b.import_(directory=aux["export_dir"], filename=os.path.join(aux["export_dir"], "export.yaml"), transfer="copy")

        def scenario_transfer(b, dt, root, aux):
            b.transfer_from(aux["src"], aux["src_refs"], transfer="copy", register_dataset_types=False)

        additive = [("put", scenario_put), ("put-in-block", scenario_put_in_block), ("ingest-copy", scenario_ingest("copy")),
                    ("ingest-move", scenario_ingest("move")), ("import", scenario_import), ("transfer_from", scenario_transfer)]
        # a source repository for import / transfer
        sroot, sb, sdt = fresh("src")
        srefs = [sb.put({"s": i}, sdt, instrument="I", detector=i) for i in (2, 3)]
        export_dir = os.path.join(tmp, "export")
        os.makedirs(export_dir)
        with sb.export(directory=export_dir, filename=os.path.join(export_dir, "export.yaml"), transfer="copy") as ex:
            ex.saveDatasets(srefs)
        for name, scen in additive:
            k = 1
            reached_effect = False
            while True:
                tag = f"f_{name}_{k}"
                root, b, dt = fresh(tag)
                from lsst.daf.butler import CollectionType
                b.registry.registerCollection("tag", CollectionType.TAGGED)
                existing = b.put({"keep": 1}, dt, instrument="I", detector=1)
                aux = {"existing": existing, "files": external_files(tag + "_ext", 2), "export_dir": export_dir, "src": sb, "src_refs": srefs}
                ext_before = {p: open(p).read() for p in aux["files"]}
                before = snapshot(b, root, [dt])
                inj.k, inj.count, inj.log = k, 0, []
                failed = None
                try:
                    scen(b, dt, root, aux)
                except Boom:
                    failed = "Boom"
                except Exception as e:
                    failed = type(e).__name__
                finally:
                    inj.k = None
                after = snapshot(b, root, [dt])
                ctx.evaluations += 1
                ctx.count(f"fault:{name}")
                if inj.count < k:
                    break  # the operation completed without reaching boundary k: all boundaries enumerated
                where = inj.log[k - 1] if len(inj.log) >= k else "?"
                if failed is None:
                    # the fault was swallowed: the operation must then have completed consistently (nothing to check here)
                    ctx.count(f"fault-swallowed:{name}")
                else:
                    d = diff(before, after)
                    ctx.nontrivial.add((name, k))
                    if name == "ingest-move":
                        # a failed move-ingest must not lose the user's files either
                        for p, content in ext_before.items():
                            in_place = os.path.exists(p) and open(p).read() == content
                            if not in_place:
                                d.append(f"external file {os.path.basename(p)} was moved away and not restored")
                    if d:
                        viol(f"{name} with a fault at boundary {k} ({where}) -> {failed}: " + "; ".join(d), f"fault:{name}:{where}:{k}",
                             {"kind": "fault", "operation": name, "k": k, "boundary": where, "diff": d})
                    try:
                        got = b.get(existing)
                        if got != {"keep": 1}:
                            viol(f"{name} with a fault at boundary {k} ({where}) damaged an unrelated dataset", f"fault-other:{name}:{k}", {"kind": "fault", "operation": name, "k": k})
                    except Exception as e:
                        viol(f"{name} with a fault at boundary {k} ({where}): unrelated dataset unreadable afterwards ({type(e).__name__})",
                             f"fault-other:{name}:{k}", {"kind": "fault", "operation": name, "k": k})
                del b
                shutil.rmtree(root, ignore_errors=True)
                shutil.rmtree(os.path.join(tmp, tag + "_ext"), ignore_errors=True)
                k += 1
                if k > 60:
                    break
            ctx.extra.setdefault("fault_boundaries", {})[name] = k - 1

        # ---------------- removals: all-or-nothing in the registry, non-targets intact, next emptyTrash completes
        for name in ("prune-purge", "removeRuns"):
            k = 1
            while True:
                tag = f"r_{name}_{k}"
                root, b, dt = fresh(tag)
                keep = b.put({"keep": 1}, dt, instrument="I", detector=1)
                b.registry.registerRun("r2")
                t1 = b.put({"t": 1}, dt, instrument="I", detector=2, run="r2")
                t2 = b.put({"t": 2}, dt, instrument="I", detector=3, run="r2")
                before = snapshot(b, root, [dt])
                inj.k, inj.count, inj.log = k, 0, []
                failed = None
                try:
                    if name == "prune-purge":
                        b.pruneDatasets([t1, t2], purge=True, unstore=True, disassociate=True)
                    else:
                        b.removeRuns(["r2"], unstore=True)
                except Exception as e:
                    failed = type(e).__name__
                finally:
                    inj.k = None
                ctx.evaluations += 1
                ctx.count(f"fault:{name}")
                if inj.count < k:
                    break
                where = inj.log[k - 1] if len(inj.log) >= k else "?"
                ctx.nontrivial.add((name, k))
                after = snapshot(b, root, [dt])
                problems = []
                gone = [r for r in (t1, t2) if b.registry.getDataset(r.id) is None]
                if failed is not None and len(gone) not in (0, 2):
                    problems.append(f"registry removed {len(gone)} of the 2 targets")
                try:
                    if b.get(keep) != {"keep": 1}:
                        problems.append("a dataset that was not targeted changed")
                except Exception as e:
                    problems.append(f"a dataset that was not targeted is unreadable ({type(e).__name__})")
                for r in (t1, t2):
                    if b.registry.getDataset(r.id) is not None:
                        # still registered: must still be fully usable or at least not half-recorded
                        try:
                            ok = b.get(r) in ({"t": 1}, {"t": 2})
                        except Exception:
                            ok = False
                        ex = b.exists(r, full_check=True)
                        if not ok and bool(ex):
                            problems.append(f"target {r.dataId['detector']} is reported as existing but cannot be read")
                # the next trash emptying removes whatever artifacts were left behind
                try:
                    b._datastore.emptyTrash()
                except Exception as e:
                    problems.append(f"emptyTrash afterwards raised {type(e).__name__}")
                final = snapshot(b, root, [dt])
                for r, det in ((t1, 2), (t2, 3)):
                    registered = b.registry.getDataset(r.id) is not None
                    art = [f for f in final["files"] if f"_I_d{det}_r2" in f]
                    if not registered and art:
                        if failed is not None:
                            problems.append(f"artifact of removed target {det} survives the next trash emptying")
                        else:
                            # The fault was swallowed (ignore_errors=True in Datastore.trash /
                            # emptyTrash) and the removal *succeeded* from the caller's point of
                            # view.  C07 speaks about removals that fail, so this is outside the
                            # property; it is recorded as an observation only.
                            ctx.count("observation:swallowed-fault-orphans-artifact")
                            ctx.extra.setdefault("observations", []).append(
                                f"{name}: fault at boundary {k} ({where}) is swallowed, the removal returns normally and the artifact of target {det} is orphaned")
                if problems:
                    viol(f"{name} with a fault at boundary {k} ({where}) -> {failed}: " + "; ".join(problems), f"fault:{name}:{where}:{k}",
                         {"kind": "fault", "operation": name, "k": k, "boundary": where, "problems": problems})
                del b
                shutil.rmtree(root, ignore_errors=True)
                k += 1
                if k > 60:
                    break
            ctx.extra.setdefault("fault_boundaries", {})[name] = k - 1
    finally:
        inj.restore()


def replay(ctx, content):
    print("replay:", content.get("what"))
    run(ctx)
    return core.finish(ctx)
