"""C11 — Timespans are half-open sets of nanoseconds, identically in Python and SQL.

Tie: T (the whole Lean model is generated from `_timespan.py` and
`timespan_database_representation.py` on every run) + C (every generated definition is
run against the Python method / the SQL expression on SQLite it was generated from,
exhaustively over an endpoint grid).  Oracle: interval/set semantics computed in the
harness, independent of model and implementation.
"""
from __future__ import annotations

import itertools
import os
import sys

from vlib import core

LEVEL = "proof"
LEAN_TARGETS = ["ButlerModel.Props.C11", "driver"]


def gen(ctx):
    sys.path.insert(0, os.path.join(core.VERIF, "translate"))
    import gen_timespan
    from py2lean import Untranslatable

    try:
        return gen_timespan.generate(core.GEN_DIR)
    except Untranslatable as e:
        ctx.broken.append(f"translation: {e}")
        return None
    except Exception as e:
        ctx.broken.append(f"translation: {type(e).__name__}: {e}")
        return None


# ---------------------------------------------------------------- oracle (set semantics)
def canon(p, MIN, MAX):
    """None for the empty set, else (b, e)."""
    b, e = p
    return None if b >= e else (b, e)


def o_overlaps(a, b):
    return a is not None and b is not None and max(a[0], b[0]) < min(a[1], b[1])


def o_contains(a, b):
    if b is None:
        return True
    if a is None:
        return False
    return a[0] <= b[0] and b[1] <= a[1]


def o_lt(a, b):
    return a is not None and b is not None and a[1] <= b[0]


def o_gt(a, b):
    return a is not None and b is not None and a[0] >= b[1]


def o_inter(*xs):
    if any(x is None for x in xs):
        return None
    b = max(x[0] for x in xs)
    e = min(x[1] for x in xs)
    return None if b >= e else (b, e)


def mem(x, a):
    return a is not None and a[0] <= x < a[1]


def probes(*xs):
    pts = set()
    for x in xs:
        if x is not None:
            for v in x:
                pts.update((v - 1, v, v + 1))
    return sorted(pts)


def run(ctx):
    ctx.rule = (
        "exhaustive over a 10-point endpoint grid {min,1,2,5,6,7,1000,max-2,max-1,max}: all 100 _nsec pairs, all "
        "ordered pairs (and sampled triples) of the resulting timespans for every operation, every grid instant, "
        "all Bound combinations for the constructor, SQL forms on SQLite incl. NULL operands; non-trivial = "
        "distinct (operation, operands) cases whose operands are not both empty; plus nanosecond conversion "
        "round trips (boundaries, powers of two, day/second boundaries, random)"
    )
    ctx.assumptions = [
        "SQLite evaluates the rendered SQLAlchemy expressions as written (three-valued logic)",
        "astropy two-part Julian-date arithmetic is accurate to < 0.5 ns over 1970-2100 (validated by sampling, not proved)",
        "py2lean translates the accepted Python subset faithfully (validated on every run by the exhaustive grid comparison)",
    ]
    with core.Lock():
        consts = gen(ctx)
        built = consts is not None and core.lean_build(ctx, LEAN_TARGETS)
        if built:
            core.lean_audit(ctx, ["ButlerModel.Props.C11"])
            if not ctx.quick():
                core.leanchecker(ctx, ["ButlerModel.Props.C11"])
    correspondence(ctx, model_ok=built)


def correspondence(ctx, model_ok: bool):
    import logging

    logging.disable(logging.WARNING)
    import astropy.time
    import sqlalchemy

    from lsst.daf.butler import Timespan
    from lsst.daf.butler.time_utils import TimeConverter
    from lsst.daf.butler.timespan_database_representation import TimespanDatabaseRepresentation

    conv = TimeConverter()
    MIN, MAX = conv.min_nsec, conv.max_nsec
    grid = [MIN, MIN + 1, MIN + 2, 5, 6, 7, 1000, MAX - 2, MAX - 1, MAX]
    if not ctx.quick():
        grid = sorted(set(grid + [3, 4, 999, 1001, 86400 * 10**9, MAX // 2]))
    req: list[str] = []  # driver requests
    impl: list[str] = []  # implementation answers, same syntax as the model's replies
    meta: list[tuple] = []

    def viol(what, key, replay):
        ctx.violations.append(core.Violation(what=what, key=key, replay=replay))

    def r(t: Timespan) -> str:
        return f"({t.nsec[0]},{t.nsec[1]})"

    def rb(x) -> str:
        return "true" if x else "false"

    # ---- ctorNsec over all pairs
    spans = {}
    for x, y in itertools.product(grid, grid):
        t = Timespan(None, None, _nsec=(x, y))
        req.append(f"ts ctorNsec {x} {y}")
        impl.append(r(t))
        meta.append(("ctorNsec", x, y))
        c = canon((x, y), MIN, MAX)
        got = canon(t.nsec, MIN, MAX)
        ctx.evaluations += 1
        if got != c:
            viol(f"Timespan(_nsec=({x},{y})) denotes {got}, expected {c}", f"ctorNsec:{x}:{y}",
                 {"kind": "ctorNsec", "input": [x, y], "got": list(t.nsec)})
        if c is None and t.nsec != (MAX, MIN):
            viol(f"Timespan(_nsec=({x},{y})) is empty but not the canonical empty value: {t.nsec}",
                 f"ctorNsec-canon:{x}:{y}", {"kind": "ctorNsec", "input": [x, y], "got": list(t.nsec)})
        spans[t.nsec] = t
    empty = Timespan.makeEmpty()
    req.append("ts makeEmpty")
    impl.append(r(empty))
    meta.append(("makeEmpty",))
    spans[empty.nsec] = empty
    S = sorted(spans.values(), key=lambda t: t.nsec)
    ctx.extra["distinct_timespans"] = len(S)

    # ---- unary / binary relations and operations, all ordered pairs
    for a in S:
        req.append(f"ts op1 isEmpty {a.nsec[0]} {a.nsec[1]}")
        impl.append(rb(a.isEmpty()))
        meta.append(("isEmpty", a.nsec))
        ca = canon(a.nsec, MIN, MAX)
        if a.isEmpty() != (ca is None):
            viol(f"isEmpty({a.nsec}) = {a.isEmpty()}", f"isEmpty:{a.nsec}", {"kind": "op1", "op": "isEmpty", "a": list(a.nsec)})
        req.append(f"ts op1 intersection0 {a.nsec[0]} {a.nsec[1]}")
        impl.append(r(a.intersection()))
        meta.append(("intersection0", a.nsec))
    ops = ["overlaps", "contains", "lt", "gt", "eq", "intersection", "difference"]
    for a, b in itertools.product(S, S):
        ca, cb = canon(a.nsec, MIN, MAX), canon(b.nsec, MIN, MAX)
        res = {
            "overlaps": a.overlaps(b), "contains": a.contains(b), "lt": a < b, "gt": a > b, "eq": a == b,
            "intersection": a.intersection(b), "difference": list(a.difference(b)),
        }
        exp = {
            "overlaps": o_overlaps(ca, cb), "contains": o_contains(ca, cb), "lt": o_lt(ca, cb), "gt": o_gt(ca, cb),
            "eq": ca == cb,
        }
        args = f"{a.nsec[0]} {a.nsec[1]} {b.nsec[0]} {b.nsec[1]}"
        for op in ops:
            req.append(f"ts op {op} {args}")
            v = res[op]
            if op == "intersection":
                impl.append(r(v))
            elif op == "difference":
                impl.append("[" + ",".join(r(p) for p in v) + "]")
            else:
                impl.append(rb(v))
            meta.append((op, a.nsec, b.nsec))
            ctx.evaluations += 1
            if ca is not None or cb is not None:
                ctx.nontrivial.add((op, a.nsec, b.nsec))
        for op, e in exp.items():
            if bool(res[op]) != e:
                viol(f"{op}({a.nsec},{b.nsec}) = {res[op]}, set semantics says {e}", f"{op}:{a.nsec}:{b.nsec}",
                     {"kind": "op", "op": op, "a": list(a.nsec), "b": list(b.nsec), "got": bool(res[op]), "expected": e})
        if (a == b) != (hash(a) == hash(b)) and a == b:
            viol(f"equal timespans with different hashes {a.nsec}", f"hash:{a.nsec}", {"kind": "hash", "a": list(a.nsec)})
        inter = canon(res["intersection"].nsec, MIN, MAX)
        if inter != o_inter(ca, cb) or (inter is None and res["intersection"].nsec != (MAX, MIN)):
            viol(f"intersection({a.nsec},{b.nsec}) = {res['intersection'].nsec}", f"intersection:{a.nsec}:{b.nsec}",
                 {"kind": "op", "op": "intersection", "a": list(a.nsec), "b": list(b.nsec)})
        pieces = [canon(p.nsec, MIN, MAX) for p in res["difference"]]
        bad = None
        for x in probes(ca, cb, (MIN, MAX)):
            want = mem(x, ca) and not mem(x, cb)
            n_in = sum(1 for p in pieces if mem(x, p))
            if n_in != (1 if want else 0):
                bad = (x, want, n_in)
                break
        if bad is None and ca is not None and any(p is None for p in pieces):
            bad = ("empty-piece",)
        if bad is None and len(pieces) > 2:
            bad = ("more-than-two-pieces",)
        if bad:
            viol(f"difference({a.nsec},{b.nsec}) = {[p.nsec for p in res['difference']]} wrong at {bad}",
                 f"difference:{a.nsec}:{b.nsec}",
                 {"kind": "op", "op": "difference", "a": list(a.nsec), "b": list(b.nsec), "detail": list(bad)})
    # triples for n-ary intersection (sampled)
    triples = list(itertools.product(S, S, S))
    ctx.rng.shuffle(triples)
    for a, b, c in triples[: (400 if ctx.quick() else 5000)]:
        v = a.intersection(b, c)
        req.append(f"ts op3 intersection {a.nsec[0]} {a.nsec[1]} {b.nsec[0]} {b.nsec[1]} {c.nsec[0]} {c.nsec[1]}")
        impl.append(r(v))
        meta.append(("intersection3", a.nsec, b.nsec, c.nsec))
        ctx.evaluations += 1
        want = o_inter(canon(a.nsec, MIN, MAX), canon(b.nsec, MIN, MAX), canon(c.nsec, MIN, MAX))
        if canon(v.nsec, MIN, MAX) != want:
            viol(f"intersection of {a.nsec},{b.nsec},{c.nsec} = {v.nsec}", f"intersection3:{a.nsec}:{b.nsec}:{c.nsec}",
                 {"kind": "op3", "a": list(a.nsec), "b": list(b.nsec), "c": list(c.nsec)})

    # ---- instants
    times = {n: conv.nsec_to_astropy(n) for n in grid}
    for n, t in times.items():
        back = conv.astropy_to_nsec(t)
        if back != n:
            viol(f"astropy_to_nsec(nsec_to_astropy({n})) = {back}", f"roundtrip:{n}", {"kind": "roundtrip", "n": n, "got": back})
    for a in S:
        ca = canon(a.nsec, MIN, MAX)
        for n, t in times.items():
            res = {"overlaps": a.overlaps(t), "contains": a.contains(t), "lt": a < t, "gt": a > t}
            exp = {
                "overlaps": mem(n, ca), "contains": mem(n, ca),
                "lt": ca is not None and ca[1] <= n, "gt": ca is not None and ca[0] > n,
            }
            for op in res:
                req.append(f"ts opT {op} {a.nsec[0]} {a.nsec[1]} {n}")
                impl.append(rb(res[op]))
                meta.append((op + "T", a.nsec, n))
                ctx.evaluations += 1
                if ca is not None:
                    ctx.nontrivial.add((op + "T", a.nsec, n))
                if bool(res[op]) != exp[op]:
                    viol(f"{op}({a.nsec}, t={n}) = {res[op]}, set semantics says {exp[op]}", f"{op}T:{a.nsec}:{n}",
                         {"kind": "opT", "op": op, "a": list(a.nsec), "t": n, "got": bool(res[op]), "expected": exp[op]})

    # ---- public constructor, all Bound combinations
    def bound_cases():
        yield "N", None, None
        yield "E", Timespan.EMPTY, None
        yield "O", 5, None
        for n in [MIN, MIN + 1, 5, 6, MAX - 2, MAX - 1, MAX]:
            yield f"T:{n}:0:0", times.get(n) or conv.nsec_to_astropy(n), n
        early = astropy.time.Time("1960-01-01T00:00:00", format="isot", scale="tai")
        late = astropy.time.Time("2150-01-01T00:00:00", format="isot", scale="tai")
        yield f"T:{MIN}:1:0", early, MIN
        yield f"T:{MAX}:0:1", late, MAX

    for (sb, vb, nb), (se, ve, ne), pad in itertools.product(list(bound_cases()), list(bound_cases()), [True, False]):
        req.append(f"ts ctor {sb} {se} {int(pad)}")
        try:
            t = Timespan(vb, ve, padInstantaneous=pad)
            out = "ok " + r(t)
        except (TypeError, ValueError) as e:
            t = None
            out = "err " + type(e).__name__
        impl.append(out)
        meta.append(("ctor", sb, se, pad))
        ctx.evaluations += 1
        ctx.nontrivial.add(("ctor", sb, se, pad))
        # oracle for the documented constructor semantics
        if t is not None:
            lo = MIN if sb == "N" else nb
            hi = MAX if se == "N" else ne
            if sb == "E" or se == "E":
                want = None
            elif lo == hi:
                want = (lo, lo + 1) if pad else None
            else:
                want = canon((lo, hi), MIN, MAX)
            if canon(t.nsec, MIN, MAX) != want or (want is None and t.nsec != (MAX, MIN)):
                viol(f"Timespan({sb},{se},pad={pad}) = {t.nsec}, documented meaning {want}", f"ctor:{sb}:{se}:{pad}",
                     {"kind": "ctor", "begin": sb, "end": se, "pad": pad, "got": list(t.nsec)})

    # ---- SQL forms on SQLite: operands live in real (nullable) columns, as in the registry tables
    C = TimespanDatabaseRepresentation.Compound
    engine = sqlalchemy.create_engine("sqlite://")
    md = sqlalchemy.MetaData()
    tbl = sqlalchemy.Table(
        "ops", md,
        sqlalchemy.Column("id", sqlalchemy.Integer, primary_key=True),
        *[sqlalchemy.Column(nm, sqlalchemy.BigInteger, nullable=True) for nm in C.getFieldNames("a")],
        *[sqlalchemy.Column(nm, sqlalchemy.BigInteger, nullable=True) for nm in C.getFieldNames("b")],
        sqlalchemy.Column("t", sqlalchemy.BigInteger, nullable=True),
    )
    md.create_all(engine)

    def sqlval(v, kind):
        if v is None:
            return "null"
        if kind == "bool":
            return rb(bool(v))
        return str(v)

    def enc(t):
        return "NULL" if t is None else f"{t.nsec[0]},{t.nsec[1]}"

    operands = [None] + S
    pairs = list(itertools.product(operands, operands))
    if ctx.quick():
        ctx.rng.shuffle(pairs)
        pairs = pairs[:1200]
    rows = []
    for a, b in pairs:
        rows.append((a, b, None))
    for a in operands:
        for n in [None] + grid:
            rows.append((a, None, n))
    payload = []
    for i, (a, b, n) in enumerate(rows):
        d = {"id": i, "t": n}
        C.update(a, name="a", result=d)
        C.update(b, name="b", result=d)
        payload.append(d)
    ea = C.from_columns(tbl.columns, name="a")
    eb = C.from_columns(tbl.columns, name="b")
    tcol = tbl.columns["t"]
    exprs = [
        ("overlaps", "bool", ea.overlaps(eb)), ("contains", "bool", ea.contains(eb)), ("lt", "bool", ea < eb),
        ("gt", "bool", ea > eb), ("overlapsT", "bool", ea.overlaps(tcol)), ("containsT", "bool", ea.contains(tcol)),
        ("ltT", "bool", ea < tcol), ("gtT", "bool", ea > tcol), ("isEmpty", "bool", ea.isEmpty()),
        ("isNull", "bool", ea.isNull()), ("lower", "int", ea.lower()), ("upper", "int", ea.upper()),
    ]
    with engine.begin() as conn:
        for k in range(0, len(payload), 500):
            conn.execute(tbl.insert(), payload[k : k + 500])
        result = conn.execute(
            sqlalchemy.select(tbl.columns["id"], *[e.label(nm) for nm, _, e in exprs]).order_by(tbl.columns["id"])
        ).all()
    for row in result:
        a, b, n = rows[row[0]]
        for (nm, kind, _), v in zip(exprs, row[1:]):
            two = nm in ("overlaps", "contains", "lt", "gt")
            isT = nm.endswith("T")
            if two and n is not None:
                continue
            if isT and b is not None:
                continue
            line = f"ts sql {nm} {enc(a)} {enc(b)} {'NULL' if n is None else n}"
            req.append(line)
            impl.append(sqlval(v, kind))
            meta.append(("sql", line))
            ctx.evaluations += 1
            ctx.nontrivial.add(line)
            # oracle: the SQL form must agree with the Python operation; NULL operand -> NULL (never true)
            py = "skip"
            if two:
                py = None if (a is None or b is None) else {"overlaps": a.overlaps, "contains": a.contains, "lt": a.__lt__, "gt": a.__gt__}[nm](b)
            elif isT:
                py = None if (a is None or n is None) else {"overlapsT": a.overlaps, "containsT": a.contains, "ltT": a.__lt__, "gtT": a.__gt__}[nm](times[n])
            elif nm == "isEmpty":
                py = None if a is None else a.isEmpty()
            elif nm == "isNull":
                py = a is None
            if py == "skip":
                continue
            got = None if v is None else bool(v)
            if py is None:
                if got is True:
                    viol(f"SQL `{line}` with a NULL operand evaluates to true", "sqlnull:" + line, {"kind": "sql", "line": line, "sql": v})
            elif got is None or got != bool(py):
                viol(f"SQL `{line}` evaluates to {v!r} but the Python operation gives {py!r}", "sql:" + line,
                     {"kind": "sql", "line": line, "sql": v, "python": bool(py)})

    # ---- nanosecond conversion: exactness, monotonicity, clamping (implementation only; float part = partial)
    rng = ctx.rng
    ns = set()
    for k in range(0, 62):
        for d in (-1, 0, 1):
            v = (1 << k) + d
            if MIN <= v <= MAX:
                ns.add(v)
    day = 86400 * 10**9
    for dnum in [1, 2, 365, 10957, 18262, 20000, 47481]:
        for d in (-1, 0, 1, 499_999_999, 500_000_000, 500_000_001, 999_999_999):
            v = dnum * day + d
            if MIN <= v <= MAX:
                ns.add(v)
    n_rand = 3000 if ctx.quick() else 200000
    for _ in range(n_rand):
        ns.add(rng.randrange(MIN, MAX + 1))
    base = rng.randrange(MIN, MAX - 10**6)
    for d in range(0, 2000 if ctx.quick() else 50000):
        ns.add(base + d)
    ns.update([MIN, MIN + 1, MAX - 1, MAX])
    prev_t = None
    n_conv = 0
    for n in sorted(ns):
        t = conv.nsec_to_astropy(n)
        back = conv.astropy_to_nsec(t)
        n_conv += 1
        if back != n:
            viol(f"astropy_to_nsec(nsec_to_astropy({n})) = {back}", f"roundtrip:{n}", {"kind": "roundtrip", "n": n, "got": back})
            break
        if prev_t is not None and not (prev_t < t):
            viol(f"nsec_to_astropy not strictly increasing at {n}", f"monotone:{n}", {"kind": "monotone", "n": n})
            break
        prev_t = t
    # other scales / formats for the same instant
    for n in sorted(ns)[:: max(1, len(ns) // (300 if ctx.quick() else 5000))]:
        t = conv.nsec_to_astropy(n)
        for variant in ("tt", "utc", "jd2", "copy_mjd"):
            try:
                if variant == "tt":
                    t2 = t.tt
                elif variant == "utc":
                    t2 = t.utc
                elif variant == "jd2":
                    t2 = astropy.time.Time(t.jd1, t.jd2, format="jd", scale="tai")
                else:
                    t2 = t.copy(format="mjd")
                back = conv.astropy_to_nsec(t2)
            except Exception as e:  # noqa
                back = f"{type(e).__name__}"
            n_conv += 1
            if back != n:
                viol(f"astropy_to_nsec of the {variant} form of nsec {n} = {back}", f"scale:{variant}:{n}",
                     {"kind": "scale", "variant": variant, "n": n, "got": back})
        # the same instant expressed on the relativistic scales (TDB, TCG, TCB): the conversion goes through astropy's own
        # transformation back to TAI, whose double-double arithmetic is good to well under a microsecond — a scale that is
        # *not* converted is off by a millisecond (TDB), a second (TCG) or tens of seconds (TCB)
        for variant in ("tdb", "tcg", "tcb"):
            try:
                back = conv.astropy_to_nsec(getattr(t, variant))
            except Exception as e:  # noqa
                back = f"{type(e).__name__}"
            n_conv += 1
            if not isinstance(back, int) or abs(back - n) > 1000:
                viol(f"astropy_to_nsec of the {variant.upper()} form of nsec {n} = {back} ({(back - n) if isinstance(back, int) else '?'} ns off)",
                     f"scale:{variant}:{n}", {"kind": "scale", "variant": variant, "n": n, "got": back})
                break
    for txt, want in [("1960-01-01T00:00:00", MIN), ("2150-01-01T00:00:00", MAX), ("1970-01-01T00:00:00", MIN),
                      ("2100-01-01T00:00:00", MAX)]:
        got = conv.astropy_to_nsec(astropy.time.Time(txt, format="isot", scale="tai"))
        n_conv += 1
        if got != want:
            viol(f"astropy_to_nsec({txt} TAI) = {got}, expected clamp to {want}", f"clamp:{txt}", {"kind": "clamp", "t": txt, "got": got})
    # serialised forms round-trip exactly
    import pickle

    import yaml
    for a in S[:: 1 if not ctx.quick() else 3]:
        for form, rt in (
            ("pickle", lambda t: pickle.loads(pickle.dumps(t))),
            ("json", lambda t: Timespan.model_validate_json(t.model_dump_json())),
            ("yaml", lambda t: yaml.safe_load(yaml.dump(t))),
            ("sqlrow", lambda t: C.extract(C.update(t))),
            ("bounds", lambda t: Timespan(t.begin, t.end)),
        ):
            try:
                b = rt(a)
            except Exception as e:  # a serialised form that cannot be read back is a failed round trip
                b = f"{type(e).__name__}: {e}"
            n_conv += 1
            if isinstance(b, str) or not (b == a and b.nsec == a.nsec and hash(a) == hash(b)):
                viol(f"{form} round trip of {a.nsec} gives {getattr(b, 'nsec', b)}", f"serial:{form}:{a.nsec}",
                     {"kind": "serial", "form": form, "a": list(a.nsec)})
    ctx.evaluations += n_conv
    ctx.extra["conversion_cases"] = n_conv
    ctx.count("conversion", n_conv)

    # ---- model side
    for m in meta:
        ctx.count(m[0] if m[0] != "sql" else "sql")
    for i in range(0, len(req), max(1, len(req) // 6)):
        ctx.sample({"request": req[i], "implementation": impl[i]})
    if model_ok:
        got = core.driver(req)
        ndiff = 0
        for line, m, i in zip(req, got, impl):
            if m != i:
                ndiff += 1
                if ndiff <= 5:
                    ctx.broken.append(f"correspondence: `{line}` model={m} implementation={i}")
        ctx.extra["correspondence_lines"] = len(req)
        ctx.extra["correspondence_disagreements"] = ndiff
        ctx.exhaustive = True
    else:
        ctx.notes.append("model not built: correspondence skipped, implementation searched with the set-semantics oracle only")


def replay(ctx, content) -> int:
    """Re-run the recorded input on the implementation and print what it does now."""
    from lsst.daf.butler import Timespan

    k = content.get("kind")
    print("replay", content.get("what"))
    if k in ("op", "op1", "opT", "op3", "ctorNsec"):
        a = Timespan(None, None, _nsec=tuple(content.get("a") or content.get("input")))
        print("a =", a.nsec)
        if "b" in content:
            b = Timespan(None, None, _nsec=tuple(content["b"]))
            op = content["op"]
            fn = {"lt": a.__lt__, "gt": a.__gt__, "eq": a.__eq__}.get(op) or getattr(a, op)
            res = fn(b)
            res = [p.nsec for p in res] if op == "difference" else getattr(res, "nsec", res)
            print(f"{op}({a.nsec},{b.nsec}) =", res, " recorded expectation:", content.get("expected"))
            if "expected" in content:
                return 1 if bool(res) != content["expected"] else 0
    run(ctx)
    return core.finish(ctx)
