"""C19 — export/import and butler-to-butler transfer reproduce the selection exactly.

Model: Model/Transfer.lean (keyed tables merged with the policy the code implements: strict for dataset types,
datasets by UUID and TAGGED memberships; keep for dimension records; overwrite for chain definitions; disjoint
for validity ranges); theorems in Props/C19.lean (exactness, conflict refusal, idempotence of the strictly
merged parts; the deviations C19-a / C19-b as kernel-checked witnesses).
Tie: C — seeded source histories, random selections exported with Butler.export, imported with Butler.import_
into empty, compatible, partly pre-populated and conflicting targets, and repeated; the same tables are sent to
the model.  transfer_from in several transfer modes into the same kinds of targets, and repeated.
Oracle (model-free): the target's observable state restricted to the selection equals the source's (ids,
dataset types, data IDs, runs, contents, TAGGED memberships, validity ranges, chain definitions, dimension
records); a repetition or a refusal leaves the target's whole observable state unchanged.
"""
from __future__ import annotations

import os
import shutil

from vlib import core, repo

LEVEL = "proof"
LEAN_TARGETS = ["ButlerModel.Props.C19", "driver"]


def run(ctx):
    ctx.rule = (
        "seeded source repositories (2 runs, a TAGGED, a CALIBRATION and two nested CHAINED collections, 6 detectors, a plain and a "
        "calibration dataset type, 6-14 datasets, memberships and validity ranges); for each: 6-10 (selection, target kind) pairs with "
        "selections = random subsets of datasets and collections, target kinds = {empty, the same export again, another overlapping "
        "selection imported first, conflicting dimension record, chain existing with other children, dataset type defined differently, "
        "another dataset already at the same type/data ID/run}; import_(transfer=copy) and transfer_from(copy / hardlink / symlink / "
        "relsymlink), each applied twice; non-trivial = cases in which the target already held part of the selection"
    )
    ctx.assumptions = [
        "quantum-backed (registry-less) source butlers need lsst.pipe.base quantum graphs and are not constructible in this sandbox",
        "YAML export files are produced and consumed by the same code version",
    ]
    with core.Lock():
        # T-tie: RepoExportContext._computeSortedCollections (the order in which collections are written / registered) is recognised
        # statement by statement in the working tree and generated into Gen/ExportOrderPy.lean; C19.Translated.export_order
        # (chains follow their children and all non-chains), fuel_suffices and loop_emits are proved about the generated definitions
        import sys as _sys

        _sys.path.insert(0, os.path.join(core.VERIF, "translate"))
        try:
            import gen_export

            gen_export.generate(core.GEN_DIR)
        except Exception as e:
            ctx.broken.append(f"translation: RepoExportContext._computeSortedCollections: {type(e).__name__}: {e}")
        built = core.lean_build(ctx, LEAN_TARGETS)
        if built:
            core.lean_audit(ctx, ["ButlerModel.Props.C19"])
            if not ctx.quick():
                core.leanchecker(ctx, ["ButlerModel.Props.C19"])
    with repo.Scratch("verif-c19-") as tmp:
        cases(ctx, built, tmp)
    export_order_probe(ctx)


def export_order_probe(ctx):
    """`RepoExportContext._computeSortedCollections` itself on generated sets of collections (random chain DAGs of several levels,
    shared children, children that are not exported, and now and then a cycle): every chain after all of its exported children and
    after every non-chain, every collection exactly once; a cycle is an error (what `C19.Translated.export_order` states of the
    generated definitions)."""
    from types import SimpleNamespace

    from lsst.daf.butler import CollectionType
    from lsst.daf.butler.registry.interfaces import ChainedCollectionRecord, RunRecord
    from lsst.daf.butler.transfers._context import RepoExportContext

    rng = ctx.rng
    for n in range(300 if ctx.quick() else 5000):
        n_plain, n_chain = rng.randint(0, 4), rng.randint(0, 6)
        plain = [f"{rng.choice('rtz')}{i}" for i in range(n_plain)]
        chains = [f"{rng.choice('acy')}c{i}" for i in range(n_chain)]
        cyclic = rng.random() < 0.12 and n_chain >= 2
        kids = {}
        for i, c in enumerate(chains):
            pool = plain + chains[:i] + ["not_exported"]  # children among the earlier chains only: a DAG
            kids[c] = rng.sample(pool, rng.randint(0, min(3, len(pool))))
        if cyclic:
            a_, b_ = rng.sample(chains, 2)
            kids[a_] = kids[a_] + [b_]
            kids[b_] = kids[b_] + [a_]
        names = plain + chains
        rng.shuffle(names)
        recs = {}
        for k, name in enumerate(names):
            recs[name] = ChainedCollectionRecord(k, name, children=kids[name]) if name in kids else RunRecord(k, name)
        fake = SimpleNamespace(_collections=recs)
        ctx.evaluations += 1
        ctx.count("export-order:" + ("cycle" if cyclic else "dag"))
        try:
            out = RepoExportContext._computeSortedCollections(fake)
        except RuntimeError:
            out = "RuntimeError"
        except Exception as e:
            out = f"{type(e).__name__}"
        problems = []
        if cyclic:
            if out != "RuntimeError":
                problems.append(f"a cycle among the chains gives {out}")
        elif not isinstance(out, list):
            problems.append(f"raises {out}")
        else:
            if sorted(out) != sorted(names):
                problems.append(f"returns {out} for the collections {sorted(names)}")
            pos = {x: i for i, x in enumerate(out)}
            for c, ks in kids.items():
                for k_ in ks:
                    if k_ in kids and c in pos and k_ in pos and pos[k_] > pos[c]:
                        problems.append(f"chain {c} comes before its child chain {k_}")
                for p_ in plain:
                    if c in pos and p_ in pos and pos[p_] > pos[c]:
                        problems.append(f"chain {c} comes before the non-chain {p_}")
            if n_chain >= 2:
                ctx.nontrivial.add(("export-order", n))
        if problems:
            ctx.violations.append(core.Violation(
                what=f"_computeSortedCollections over chains {kids} and others {plain}: " + "; ".join(problems[:2]),
                key=f"export-order:{sorted(kids.items())}:{plain}", replay={"kind": "export-order", "chains": kids, "others": plain}))
            break


class Num:
    def __init__(self):
        self.m = {}

    def __call__(self, kind, x):
        d = self.m.setdefault(kind, {})
        return d.setdefault(repr(x), len(d) + 1)


def observe(b, universe_dets=range(1, 9)):
    """Whole observable state of a repository, in plain Python values."""
    from lsst.daf.butler import CollectionType

    out = {"types": {}, "dims": {}, "ds": {}, "tags": {}, "chains": {}, "calibs": set(), "colls": {}}
    for t in b.registry.queryDatasetTypes():
        out["types"][t.name] = (tuple(sorted(t.dimensions.names)), t.storageClass_name, t.isCalibration())
    for rec in b.registry.queryDimensionRecords("detector"):
        out["dims"][("detector", rec.instrument, rec.id)] = rec.full_name
    for rec in b.registry.queryDimensionRecords("instrument"):
        out["dims"][("instrument", rec.name)] = (rec.detector_max, rec.class_name)
    colls = list(b.registry.queryCollections())
    for c in colls:
        ct = b.registry.getCollectionType(c)
        out["colls"][c] = ct.name
        if ct is CollectionType.CHAINED:
            out["chains"][c] = tuple(b.registry.getCollectionChain(c))
    for tname in out["types"]:
        for c in colls:
            ct = out["colls"][c]
            if ct == "RUN":
                for ref in b.registry.queryDatasets(tname, collections=[c]):
                    try:
                        content = b.get(ref)
                    except Exception as e:
                        content = f"unreadable:{type(e).__name__}"
                    out["ds"][ref.id.hex] = (tname, tuple(sorted(ref.dataId.required.items())), ref.run, repr(content))
            elif ct == "TAGGED":
                for ref in b.registry.queryDatasets(tname, collections=[c]):
                    out["tags"][(c, tname, tuple(sorted(ref.dataId.required.items())))] = ref.id.hex
            elif ct == "CALIBRATION" and out["types"][tname][2]:
                for a in b.registry.queryDatasetAssociations(tname, collections=[c], collectionTypes=[CollectionType.CALIBRATION]):
                    ts = a.timespan
                    out["calibs"].add(((c, tname, tuple(sorted(a.ref.dataId.required.items()))), a.ref.id.hex,
                                       None if ts.begin is None else int(ts.begin.mjd), None if ts.end is None else int(ts.end.mjd)))
    return out


def cases(ctx, model_ok, tmp):
    from astropy.time import Time
    from lsst.daf.butler import Butler, CollectionType, DatasetType, Timespan

    rng = ctx.rng
    empty = os.path.join(tmp, "empty")
    Butler.makeRepo(empty)
    n_src = 5 if ctx.quick() else 40
    req, impl = [], []

    def viol(what, key, replay):
        ctx.violations.append(core.Violation(what=what, key=key, replay=replay))

    def fresh_target(name):
        p = os.path.join(tmp, name)
        shutil.rmtree(p, ignore_errors=True)
        shutil.copytree(empty, p)
        return Butler.from_config(p, writeable=True)

    def day(n):
        return Time(59000 + n, format="mjd", scale="tai")

    case_no = 0
    for sidx in range(n_src):
        src = fresh_target(f"src{sidx}")
        src.registry.insertDimensionData("instrument", {"name": "I", "detector_max": 10, "class_name": "src.Cls"})
        src.registry.insertDimensionData("detector", *[{"instrument": "I", "id": i, "full_name": f"src-d{i}"} for i in range(1, 7)])
        ta = DatasetType("ta", {"instrument", "detector"}, "StructuredDataDict", universe=src.dimensions)
        tc = DatasetType("tc", {"instrument", "detector"}, "StructuredDataDict", universe=src.dimensions, isCalibration=True)
        src.registry.registerDatasetType(ta), src.registry.registerDatasetType(tc)
        for r_ in ("r1", "r2"):
            src.registry.registerRun(r_)
        src.registry.registerCollection("tg", CollectionType.TAGGED)
        src.registry.registerCollection("cal", CollectionType.CALIBRATION)
        src.registry.registerCollection("ch", CollectionType.CHAINED)
        src.registry.registerCollection("ch2", CollectionType.CHAINED)
        src.registry.setCollectionChain("ch", ["tg", "r1"])
        src.registry.setCollectionChain("ch2", ["ch", "r2"])
        refs = []
        used = set()
        for _ in range(rng.randint(6, 14)):
            t, k, rn = rng.choice([ta, ta, tc]), rng.randint(1, 6), rng.choice(["r1", "r2"])
            if (t.name, k, rn) in used:
                continue
            used.add((t.name, k, rn))
            if t is ta and rng.random() < 0.25:
                # a dataset the source does not own: ingested in place from a file outside its root (absolute URI in its records)
                from lsst.daf.butler import DatasetRef, FileDataset

                extdir = os.path.join(tmp, f"ext{sidx}")
                os.makedirs(extdir, exist_ok=True)
                fpath = os.path.join(extdir, f"direct{len(refs)}.yaml")
                with open(fpath, "w") as fh:
                    fh.write(f"k: {k}\nn: {len(refs)}\nrun: {rn}\nt: {t.name}\ndirect: true\n")
                rf = DatasetRef(t, src.registry.expandDataId(instrument="I", detector=k), run=rn)  # (saveDatasets wants expanded data IDs)
                src.ingest(FileDataset(path=fpath, refs=[rf]), transfer="direct")
                refs.append(rf)
                ctx.count("source:direct-ingested")
                continue
            refs.append(src.put({"t": t.name, "k": k, "run": rn, "n": len(refs)}, t, instrument="I", detector=k, run=rn))
        tagged_slots = set()
        for rf in refs:
            # datasets of the calibration type are tagged too (a TAGGED membership is independent of certification)
            slot = (rf.datasetType.name, rf.dataId["detector"])
            if rng.random() < 0.5 and slot not in tagged_slots:
                src.registry.associate("tg", [rf])
                tagged_slots.add(slot)
        cal_free = {k: 0 for k in range(1, 7)}
        epoch_mode = rng.random() < 0.5
        if epoch_mode:
            # make sure there are calibration datasets for detectors 1..4 (two per epoch)
            for k in (1, 2, 3, 4):
                if not any(t_ == "tc" and k_ == k for t_, k_, _ in used):
                    used.add(("tc", k, "r1"))
                    refs.append(src.put({"t": "tc", "k": k, "run": "r1", "n": len(refs)}, tc, instrument="I", detector=k, run="r1"))
            # calibrations certified in two epochs shared by several datasets, interleaved over the detectors (odd detectors in
            # epoch A, even ones in epoch B): several validity ranges with one and the same timespan, not adjacent in any ref order
            ctx.count("source:calibration-epochs")
            seen_k = set()
            for rf in refs:
                k = rf.dataId["detector"]
                if rf.datasetType.name == "tc" and k not in seen_k:
                    seen_k.add(k)
                    b0, e0 = (0, 3) if k % 2 else (3, 7)
                    src.registry.certify("cal", [rf], Timespan(day(b0), day(e0)))
        for rf in refs:
            if epoch_mode:
                break
            if rf.datasetType.name == "tc" and rng.random() < 0.7:
                k = rf.dataId["detector"]
                b0 = cal_free[k] + rng.randint(0, 2)
                e0 = b0 + rng.randint(1, 3)
                src.registry.certify("cal", [rf], Timespan(day(b0), day(e0)))
                cal_free[k] = e0
        src_state = observe(src)
        num = Num()
        n_cases = rng.randint(7, 11) if not ctx.quick() else 9
        kinds = ["empty", "again", "overlap-first", "conflict-dim", "conflict-chain", "conflict-type", "conflict-dataset", "conflict-uuid", "empty"]
        for ci in range(n_cases):
            case_no += 1
            kind = kinds[ci % len(kinds)]
            how = rng.choice(["import", "import", "transfer"])
            sel = [rf for rf in refs if rng.random() < 0.6] or refs[:1]
            sel_colls = [c for c in ("tg", "cal", "ch", "ch2") if rng.random() < 0.6]
            if epoch_mode and ci % 2 == 0:
                # the whole calibration collection with everything certified in it
                sel = list(dict.fromkeys(sel + [rf for rf in refs if rf.datasetType.name == "tc"]))
                if "cal" not in sel_colls:
                    sel_colls.append("cal")
            if kind in ("conflict-chain", "conflict-dim"):
                how = "import"  # the recorded witnesses of C19-a / C19-b always run
                if kind == "conflict-chain" and "ch" not in sel_colls:
                    sel_colls.append("ch")
            # a chain is exported together with its children (the documented requirement for importing it elsewhere)
            if "ch2" in sel_colls:
                sel_colls += [c for c in ("ch", "r2") if c not in sel_colls]
            if "ch" in sel_colls:
                sel_colls += [c for c in ("tg", "r1") if c not in sel_colls]
            if how == "transfer":
                sel_colls = []
            dst = fresh_target(f"dst{case_no}")
            desc = {"source": sidx, "kind": kind, "how": how, "datasets": len(sel), "collections": sel_colls}
            exdir = os.path.join(tmp, f"ex{case_no}")
            mode = rng.choice(["copy", "hardlink", "symlink", "relsymlink"]) if how == "transfer" else "copy"  # 'direct' is refused by design
            with_records = how == "transfer" and rng.random() < 0.5
            desc["refs_with_datastore_records"] = with_records

            def apply(sel_=sel, colls_=sel_colls, tag="x"):
                if how == "import":
                    d = exdir + tag
                    shutil.rmtree(d, ignore_errors=True)
                    os.makedirs(d)
                    with src.export(directory=d, filename="export.yaml", transfer="copy") as ex:
                        ex.saveDatasets(sel_)
                        for c in colls_:
                            ex.saveCollection(c)
                    dst.import_(directory=d, filename="export.yaml", transfer="copy")
                else:
                    use = sel_
                    if with_records:
                        # refs as a quantum or get_dataset(datastore_records=True) hands them out: with datastore records attached
                        # (with dimension records too: a dataset the source ingested in place gets its target path from the file
                        #  template, which needs them — an unexpanded ref is refused with "No metadata records attached")
                        use = [src.get_dataset(rf.id, datastore_records=True, dimension_records=True) for rf in sel_]
                    dst.transfer_from(src, use, transfer=mode, register_dataset_types=True, transfer_dimensions=True)

            # ------------------------------------------------ prepare the target
            expect_refusal = None
            try:
                if kind == "overlap-first":
                    other = [rf for rf in refs if rng.random() < 0.5] or refs[-1:]
                    apply(other, [c for c in sel_colls if c != "cal"], tag="pre")
                elif kind == "conflict-dim":
                    dst.registry.insertDimensionData("instrument", {"name": "I", "detector_max": 10, "class_name": "src.Cls"})
                    k = sel[0].dataId["detector"]
                    dst.registry.insertDimensionData("detector", {"instrument": "I", "id": k, "full_name": "dst-name"})
                elif kind == "conflict-chain" and "ch" in sel_colls:
                    dst.registry.registerRun("other")
                    dst.registry.registerCollection("ch", CollectionType.CHAINED)
                    dst.registry.setCollectionChain("ch", ["other"])
                elif kind == "conflict-type":
                    dst.registry.registerDatasetType(DatasetType(sel[0].datasetType.name, {"instrument"}, "StructuredDataDict", universe=dst.dimensions))
                    expect_refusal = "dataset type defined differently"
                elif kind == "conflict-uuid":
                    # the target already holds one of the UUIDs — in another run (the definition differs in one respect only)
                    from lsst.daf.butler import DatasetRef

                    dst.registry.insertDimensionData("instrument", {"name": "I", "detector_max": 10, "class_name": "src.Cls"})
                    dst.registry.insertDimensionData("detector", *[{"instrument": "I", "id": i, "full_name": f"src-d{i}"} for i in range(1, 7)])
                    rf = sel[0]
                    dst.registry.registerDatasetType(rf.datasetType)
                    dst.registry.registerRun("elsewhere")
                    dst.registry._importDatasets([DatasetRef(rf.datasetType, rf.dataId, run="elsewhere", id=rf.id)])
                    expect_refusal = "the same dataset id already defined in another run"
                elif kind == "conflict-dataset":
                    dst.registry.insertDimensionData("instrument", {"name": "I", "detector_max": 10, "class_name": "src.Cls"})
                    dst.registry.insertDimensionData("detector", *[{"instrument": "I", "id": i, "full_name": f"src-d{i}"} for i in range(1, 7)])
                    rf = sel[0]
                    dst.registry.registerDatasetType(rf.datasetType)
                    dst.registry.registerRun(rf.run)
                    dst.put({"other": "dataset"}, rf.datasetType, rf.dataId, run=rf.run)
                    expect_refusal = "another dataset at the same type / data ID / run"
            except Exception as e:
                ctx.notes.append(f"target preparation {kind} failed: {type(e).__name__}: {str(e)[:100]}")
                continue
            before = observe(dst)

            def tables(state, restrict=None):
                """model tables of an observed state (restricted to a selection when given)"""
                ids = None if restrict is None else {rf.id.hex for rf in restrict[0]}
                colls = None if restrict is None else set(restrict[1])
                t = {"types": [], "dims": [], "ds": [], "slots": [], "tags": [], "chains": [], "calibs": []}
                for u, v in state["ds"].items():
                    if ids is None or u in ids:
                        t["ds"].append((num("ds", u), num("dsv", v)))
                        t["slots"].append((num("dslot", v[:3]), num("ds", u)))
                sel_types = {v[0] for u, v in state["ds"].items() if ids is None or u in ids}
                for name, v in state["types"].items():
                    if restrict is None or name in sel_types:
                        t["types"].append((num("type", name), num("typev", v)))
                sel_dims = None
                if restrict is not None:
                    sel_dims = {("instrument", "I")} | {("detector", "I", dict(v[1])["detector"]) for u, v in state["ds"].items() if u in ids}
                for k, v in state["dims"].items():
                    if sel_dims is None or k in sel_dims:
                        t["dims"].append((num("dim", k), num("dimv", v)))
                for k, u in state["tags"].items():
                    if restrict is None or (u in ids and k[0] in colls):
                        t["tags"].append((num("slot", k), num("ds", u)))
                for c, kids in state["chains"].items():
                    if restrict is None or c in colls:
                        t["chains"].append((num("chain", c), num("chainv", kids)))
                for slot, u, b0, e0 in state["calibs"]:
                    if restrict is None or (u in ids and slot[0] in colls):
                        t["calibs"].append((num("slot", slot), num("ds", u), (b0 or 59000) - 59000, (e0 or 59999) - 59000))
                return t

            def fmt(t):
                def p(xs):
                    return ",".join(f"{a}@{b_}" for a, b_ in sorted(xs)) or "-"

                return (f"types={p(t['types'])} dims={p(t['dims'])} ds={p(t['ds'])} slots={p(t['slots'])} tags={p(t['tags'])} chains={p(t['chains'])} "
                        f"calibs={','.join('/'.join(map(str, x)) for x in sorted(t['calibs'])) or '-'}")

            export_tables = tables(src_state, (sel, sel_colls))
            if how == "import":
                req.append("xfer new " + fmt(tables(before))), impl.append("ok")
            results = []
            for attempt in (1, 2):
                st0 = observe(dst)
                try:
                    apply()
                    outcome = "ok"
                except Exception as e:
                    outcome = "refused"
                    err = f"{type(e).__name__}: {str(e)[:120]}"
                st1 = observe(dst)
                results.append(outcome)
                ctx.evaluations += 1
                ctx.count(f"{how}:{kind}:{attempt}:{outcome}")
                if how == "import":
                    req.append("xfer import " + fmt(export_tables)), impl.append(outcome)
                    if outcome == "ok":
                        req.append("xfer state"), impl.append(fmt(tables(st1)))
                    else:
                        # dataset types / collections are registered before and outside the import's transaction, so a refused
                        # import may leave new (empty) registrations; they are not part of the modelled state
                        masked = tables(st1)
                        masked["types"] = [x for x in masked["types"] if x in tables(st0)["types"]]
                        masked["chains"] = [x for x in masked["chains"] if x in tables(st0)["chains"]]
                        req.append("xfer state"), impl.append(fmt(masked))
                        req.append("xfer new " + fmt(tables(st1))), impl.append("ok")  # carry on from what is really there
                # ---------------- oracle
                if outcome == "refused":
                    # what was there before must still be there, unchanged (new, empty registrations made before the refusal
                    # are not "what is already there"; dataset types cannot be registered inside a transaction)
                    changed = [k for k in ("types", "dims", "ds", "tags", "chains") if any(st1[k].get(x) != v for x, v in st0[k].items())]
                    if not st0["calibs"] <= st1["calibs"]:
                        changed.append("calibs")
                    if changed:
                        viol(f"{how} #{attempt} into a target of kind {kind} was refused ({err}) but changed the target: {changed}"
                             + (f"; e.g. dataset contents now {[v[3][:30] for v in st1['ds'].values() if 'unreadable' in v[3]][:2]}" if "ds" in changed else ""),
                             "repeated-import-deletes-artifact" if (attempt == 2 and how == "import" and changed == ["ds"] and results[0] == "ok") else f"refused-changes:{how}:{kind}:{attempt}",
                             {"kind": "c19", **desc, "attempt": attempt, "changed": changed})
                    # refused, not merged: none of the selection's datasets, memberships or validity ranges may have arrived
                    # (a partial merge is a merge); registrations of dataset types / collections are the documented exception
                    arrived = [k for k in ("ds", "tags") if any(x not in st0[k] for x in st1[k])]
                    if st1["calibs"] - st0["calibs"]:
                        arrived.append("calibs")
                    if arrived and not changed:
                        new_ds = [x for x in st1["ds"] if x not in st0["ds"]]
                        viol(f"{how} #{attempt} into a target of kind {kind} was refused ({err}) but part of the selection arrived all the same: "
                             f"{arrived}" + (f" ({len(new_ds)} new datasets, e.g. content {[st1['ds'][x][3][:40] for x in new_ds][:1]})" if new_ds else ""),
                             f"refused-but-merged:{how}:{kind}:{attempt}", {"kind": "c19", **desc, "attempt": attempt, "arrived": arrived})
                    if attempt == 1 and expect_refusal is None and kind in ("empty",):
                        viol(f"{how} into an empty target was refused: {err}", f"refused-empty:{how}", {"kind": "c19", **desc})
                    continue
                if attempt == 1 and expect_refusal is not None:
                    viol(f"{how} into a target with {expect_refusal} was accepted (a conflicting definition must be refused, not merged)",
                         f"conflict-accepted:{how}:{kind}", {"kind": "c19", **desc})
                # accepted: the selection is in the target exactly as in the source
                ids = {rf.id.hex for rf in sel}
                problems = []
                for u in ids:
                    if st1["ds"].get(u) != src_state["ds"][u]:
                        problems.append(f"dataset {u[:6]} is {st1['ds'].get(u)} in the target, {src_state['ds'][u]} in the source")
                if how == "import":
                    for k, u in src_state["tags"].items():
                        if u in ids and k[0] in sel_colls and st1["tags"].get(k) != u:
                            problems.append(f"TAGGED membership {k} -> {u[:6]} missing in the target")
                    for c in sel_colls:
                        if c in src_state["chains"] and st1["chains"].get(c) != src_state["chains"][c]:
                            problems.append(f"chain {c} is {st1['chains'].get(c)} in the target, {src_state['chains'][c]} in the source")
                    for x in src_state["calibs"]:
                        if x[1] in ids and x[0][0] in sel_colls and x not in st1["calibs"]:
                            problems.append(f"validity range {x[0][2]} {x[2]}..{x[3]} of {x[1][:6]} missing in the target")
                # every transferred or imported artifact lives below the target's own root (all modes used here take a copy or a link)
                troot = os.path.realpath(os.path.join(tmp, f"dst{case_no}"))
                for rf in sel:
                    try:
                        loc = dst.getURI(rf).ospath
                    except Exception as e:
                        problems.append(f"dataset {rf.id.hex[:6]} has no URI in the target: {type(e).__name__}")
                        continue
                    if not os.path.abspath(loc).startswith(os.path.abspath(os.path.join(tmp, f"dst{case_no}")) + os.sep):
                        problems.append(f"dataset {rf.id.hex[:6]} is recorded in the target at {loc}, outside the target's root {troot}")
                for u in ids:
                    k = ("detector", "I", dict(src_state["ds"][u][1])["detector"])
                    if st1["dims"].get(k) != src_state["dims"][k]:
                        problems.append(f"dimension record {k} is {st1['dims'].get(k)!r} in the target, {src_state['dims'][k]!r} in the source")
                        break
                # nothing else of the target was altered
                for part in ("ds", "tags", "types"):
                    for k, v in st0[part].items():
                        if st1[part].get(k) != v:
                            problems.append(f"{part} entry {str(k)[:40]} of the target was altered: {v} -> {st1[part].get(k)}")
                for c, kids in st0["chains"].items():
                    if st1["chains"].get(c) != kids:
                        problems.append(f"chain {c} of the target was redefined: {kids} -> {st1['chains'].get(c)}")
                if attempt == 2 and st1 != st0:
                    problems.append(f"the repetition changed the target: {[k for k in st1 if st1[k] != st0[k]]}")
                if problems:
                    key = f"c19:{how}:{kind}:{attempt}"
                    if all("dimension record" in p for p in problems) and kind == "conflict-dim":
                        key = "import-keeps-conflicting-dimension-record"
                    elif all("redefined" in p for p in problems) and kind == "conflict-chain":
                        # the recorded witness is the *redefinition* of the target's chain; a chain that silently keeps other children
                        # than the exported ones is a different failure and is reported under its own key
                        key = "import-redefines-existing-chain"
                    viol(f"{how}({mode}) #{attempt} of {len(sel)} datasets + {sel_colls} into a target of kind {kind}: " + "; ".join(problems[:3]), key,
                         {"kind": "c19", **desc, "attempt": attempt, "problems": problems[:6]})
            if kind != "empty" or results[0] == "ok":
                ctx.nontrivial.add((sidx, ci, kind, how))
            ctx.sample({**desc, "outcomes": results}, cap=8)
            del dst
            shutil.rmtree(os.path.join(tmp, f"dst{case_no}"), ignore_errors=True)
            for tag in ("x", "pre"):
                shutil.rmtree(exdir + tag, ignore_errors=True)
    quantum_sources(ctx, tmp, fresh_target, viol)
    visit_transfers(ctx, tmp, fresh_target, viol)
    if model_ok:
        got = core.driver(req)
        nd = 0
        for line, m, i in zip(req, got, impl):
            if m != i:
                nd += 1
                if nd <= 5:
                    ctx.broken.append(f"correspondence: `{line[:120]}` model={m[:300]} implementation={i[:300]}")
        ctx.extra["correspondence_lines"] = len(req)
        ctx.extra["correspondence_disagreements"] = nd


def visit_transfers(ctx, tmp, fresh_target, viol):
    """transfer_from(transfer_dimensions=True) of datasets of several visits: the target gets the dimension records the selection
    needs — also those of the membership tables the visits populate (visit_definition, visit_system_membership) and of the
    exposures these relate — exactly as the source has them, for every selected visit."""
    from lsst.daf.butler import DatasetType

    rng = ctx.rng
    src = fresh_target("vsrc")
    reg = src.registry
    reg.insertDimensionData("instrument", {"name": "I", "detector_max": 4, "class_name": "c.C"})
    reg.insertDimensionData("physical_filter", {"instrument": "I", "name": "f", "band": "r"})
    reg.insertDimensionData("day_obs", {"instrument": "I", "id": 20250101})
    reg.insertDimensionData("group", {"instrument": "I", "name": "g"})
    reg.insertDimensionData("visit_system", {"instrument": "I", "id": 0, "name": "one-to-one"}, {"instrument": "I", "id": 1, "name": "by-group"})
    VIS = [11, 12, 13, 14]
    for v in VIS:
        for e in (v * 10, v * 10 + 1):
            reg.insertDimensionData("exposure", {"instrument": "I", "id": e, "obs_id": f"o{e}", "physical_filter": "f", "day_obs": 20250101, "group": "g", "seq_num": e})
        reg.insertDimensionData("visit", {"instrument": "I", "id": v, "name": f"v{v}", "physical_filter": "f", "day_obs": 20250101, "seq_num": v})
        for e in (v * 10, v * 10 + 1):
            reg.insertDimensionData("visit_definition", {"instrument": "I", "visit": v, "exposure": e})
        reg.insertDimensionData("visit_system_membership", {"instrument": "I", "visit": v, "visit_system": v % 2})
    tv = DatasetType("tv", {"instrument", "visit"}, "StructuredDataDict", universe=src.dimensions)
    reg.registerDatasetType(tv)
    reg.registerRun("rv")
    refs = {v: src.put({"v": v}, tv, instrument="I", visit=v, run="rv") for v in VIS}

    def records(b, visits):
        out = {}
        for el, key in (("visit", "id"), ("visit_definition", "visit"), ("visit_system_membership", "visit")):
            out[el] = sorted(repr(sorted(r_.toDict().items(), key=str)) for r_ in b.registry.queryDimensionRecords(el) if getattr(r_, key) in visits)
        exps = {e for v in visits for e in (v * 10, v * 10 + 1)}
        out["exposure"] = sorted(repr(sorted(r_.toDict().items(), key=str)) for r_ in b.registry.queryDimensionRecords("exposure") if r_.id in exps)
        return out

    for n_case in range(3 if ctx.quick() else 12):
        sel = sorted(rng.sample(VIS, rng.choice([2, 3, 3, 4])))
        if rng.random() < 0.5:
            sel = sel[::-1]
        dst = fresh_target(f"vdst{n_case}")
        ctx.evaluations += 1
        ctx.count(f"visit-transfer:{len(sel)}-visits")
        try:
            dst.transfer_from(src, [refs[v] for v in sel], transfer="copy", register_dataset_types=True, transfer_dimensions=True)
        except Exception as e:
            viol(f"transfer_from(transfer_dimensions=True) of the datasets of visits {sel} raised {type(e).__name__}: {str(e)[:100]}", "visit-transfer-raise",
                 {"kind": "visit-transfer", "visits": sel})
            continue
        want, got = records(src, set(sel)), records(dst, set(sel))
        problems = [f"{el}: the target has {len(got[el])} of the source's {len(want[el])} records" + ("" if len(got[el]) != len(want[el]) else " (different content)")
                    for el in want if got[el] != want[el]]
        for v in sel:
            try:
                if dst.get(refs[v]) != {"v": v}:
                    problems.append(f"dataset of visit {v} reads back changed")
            except Exception as e:
                problems.append(f"dataset of visit {v} unreadable ({type(e).__name__})")
        if problems:
            viol(f"transfer_from(transfer_dimensions=True) of the datasets of visits {sel}: " + "; ".join(problems), f"visit-transfer:{sel}",
                 {"kind": "visit-transfer", "visits": sel, "problems": problems})
        ctx.nontrivial.add(("visit-transfer", tuple(sel)))


def quantum_sources(ctx, tmp, fresh_target, viol):
    """Registry-less (quantum-backed) butlers as the source: the outputs of several quanta, each written through its own
    QuantumBackedButler, brought into a full repository by collect_and_transfer and by transfer_from, once and repeatedly."""
    from lsst.daf.butler import DatasetRef, DatasetType, MissingDatasetTypeError, Quantum, QuantumBackedButler, QuantumProvenanceData

    rng = ctx.rng
    for case in range(4 if ctx.quick() else 40):
        home = fresh_target(f"qhome{case}")
        root = os.path.join(tmp, f"qhome{case}")
        home.registry.insertDimensionData("instrument", {"name": "I", "detector_max": 10, "class_name": "src.Cls"})
        home.registry.insertDimensionData("detector", *[{"instrument": "I", "id": i, "full_name": f"src-d{i}"} for i in range(1, 7)])
        types = [DatasetType(f"out{j}", {"instrument", "detector"}, "StructuredDataDict", universe=home.dimensions) for j in range(2)]
        for t in types:
            home.registry.registerDatasetType(t)
        home.collections.register("run_out")
        n_q = rng.randint(2, 4)
        quanta, provenance, expected, qbbs = [], [], {}, []
        for qi in range(n_q):
            det = qi + 1
            data_id = home.registry.expandDataId(instrument="I", detector=det)
            outs = {t: [DatasetRef(t, data_id, run="run_out")] for t in types if rng.random() < 0.75} or {types[0]: [DatasetRef(types[0], data_id, run="run_out")]}
            quantum = Quantum(taskName="verif.Task", dataId=data_id, inputs={}, outputs=outs)
            qbb = QuantumBackedButler.initialize(config=root, quantum=quantum, dimensions=home.dimensions, dataset_types={t.name: t for t in types})
            for t, (ref,) in outs.items():
                payload = {"q": qi, "t": t.name, "det": det}
                qbb.put(payload, ref)
                expected[ref.id] = (ref, payload)
            if len(outs) > 1 and rng.random() < 0.5:
                # the task removes one of its outputs again before it finishes: that output is not part of the selection
                gone_t = rng.choice(sorted(outs, key=lambda t_: t_.name))
                (gone_ref,) = outs[gone_t]
                qbb.pruneDatasets([gone_ref], purge=True, unstore=True, disassociate=True)
                expected.pop(gone_ref.id)
                ctx.count("quantum-backed:output-purged-before-provenance")
            quanta.append(quantum), provenance.append(qbb.extract_provenance_data()), qbbs.append((qbb, [r_ for (r_,) in outs.values()]))

        def audit(bt, label):
            problems = []
            got = {}
            for t in types:
                try:
                    got.update({r_.id: r_ for r_ in bt.query_datasets(t.name, collections="run_out", explain=False)})
                except MissingDatasetTypeError:
                    pass  # no quantum produced this type: nothing registered it in the target
            if set(got) != set(expected):
                problems.append(f"the repository holds {len(got)} of the {len(expected)} outputs of the {n_q} quanta")
            for did, (ref, payload) in expected.items():
                f = got.get(did)
                if f is None:
                    continue
                if f.dataId != ref.dataId or f.run != ref.run or f.datasetType != ref.datasetType:
                    problems.append(f"output {did.hex[:6]} differs: {f} / {ref}")
                elif not bt.stored(f):
                    problems.append(f"output {ref.datasetType.name} of quantum {payload['q']} is registered but its file is not known to the datastore")
                else:
                    try:
                        if bt.get(f) != payload:
                            problems.append(f"output {did.hex[:6]} reads back differently")
                    except Exception as e:
                        problems.append(f"output {did.hex[:6]} unreadable: {type(e).__name__}")
            ctx.evaluations += 1
            ctx.count("quantum-backed:" + label.split(" ")[0])
            if len(expected) >= 3:
                ctx.nontrivial.add(("qbb", case, label))
            if problems:
                viol(f"{label} ({n_q} quanta, {len(expected)} outputs): " + "; ".join(problems[:3]), f"qbb:{label}:{n_q}:{len(expected)}",
                     {"kind": "quantum-backed", "how": label, "quanta": n_q, "outputs": len(expected)})

        # (a) into another repository with transfer_from, quantum by quantum, then once more (must change nothing)
        other = fresh_target(f"qother{case}")
        mode = rng.choice(["copy", "hardlink", "symlink"])
        try:
            for qbb, rr in qbbs:
                other.transfer_from(qbb, rr, transfer=mode, register_dataset_types=True, transfer_dimensions=True)
            audit(other, f"transfer_from({mode}) from quantum-backed butlers")
            snap = observe(other)
            for qbb, rr in qbbs[:2]:
                other.transfer_from(qbb, rr, transfer=mode, register_dataset_types=True, transfer_dimensions=True)
            if observe(other) != snap:
                viol(f"repeating transfer_from({mode}) from quantum-backed butlers changed the target", f"qbb-repeat:{mode}", {"kind": "quantum-backed", "how": "repeat"})
        except Exception as e:
            viol(f"transfer_from({mode}) from a quantum-backed butler raised {type(e).__name__}: {str(e)[:100]}", f"qbb-raise:{mode}", {"kind": "quantum-backed", "how": mode})
        # (b) into the repository the quanta ran against, all at once
        try:
            QuantumProvenanceData.collect_and_transfer(home, quanta, provenance)
            audit(home, "collect_and_transfer of several quanta")
        except Exception as e:
            viol(f"collect_and_transfer of {n_q} quanta raised {type(e).__name__}: {str(e)[:100]}", "qbb-collect-raise", {"kind": "quantum-backed", "how": "collect"})
        del home, other, qbbs
        for nm in (f"qhome{case}", f"qother{case}"):
            shutil.rmtree(os.path.join(tmp, nm), ignore_errors=True)


def replay(ctx, content):
    print("replay:", content.get("what"))
    print({k: content.get(k) for k in ("source", "kind", "how", "datasets", "collections", "attempt", "problems")})
    run(ctx)
    return core.finish(ctx)
