"""C14 — the parser follows the documented grammar and rejects everything else cleanly.

Model: Model/Lexer.lean (hand-written matchers for PLY's ordered rules), Model/Parser.lean (LR driver
over the LALR tables *extracted from the live PLY parser*, hand-written semantic actions, printer).
Tie: F (productions, precedence, master lexer regex, reserved words are dumped on every run and
compared with the expected ones by the Lean kernel) + C (token streams, trees, printed forms and
error classes of generated, mutated and garbage strings).
Oracles (model-free): documented precedence/associativity (a tree printed with minimal parentheses
must parse back to itself), keyword-case / whitespace / redundant-parenthesis insensitivity,
print-reparse round trip, documented literal values, and the user-facing error class for rejected input.
"""
from __future__ import annotations

import os
import sys

from vlib import core, repo

LEVEL = "proof"
LEAN_TARGETS = ["ButlerModel.Props.C14", "driver"]


def gen(ctx):
    sys.path.insert(0, os.path.join(core.VERIF, "translate"))
    import gen_grammar
    try:
        return gen_grammar.generate(core.GEN_DIR)
    except Exception as e:
        ctx.broken.append(f"fact extraction (grammar): {type(e).__name__}: {e}")
        return None


def run(ctx):
    ctx.rule = (
        "grammar-directed generator (random operator mixes over OR/AND/NOT/comparisons/IN/+-*/%/unary, literals of every "
        "kind, identifiers, binds, tuples, function calls) printed with minimal parentheses, with keyword-case, whitespace "
        "and redundant-parenthesis variants; printed forms of the parsed trees; mutated strings (token deletion / insertion "
        "/ swap / garbage characters) and lexer-focused strings; non-trivial = distinct strings with at least 3 tokens"
    )
    ctx.assumptions = [
        "time-literal *values* are astropy's (only the literal syntax and its error class are checked)",
        "non-ASCII letters/digits (which Python's re matches under IGNORECASE / \\d) are outside the modelled alphabet",
    ]
    with core.Lock():
        ok = gen(ctx) is not None
        built = ok and core.lean_build(ctx, LEAN_TARGETS)
        if built:
            core.lean_audit(ctx, ["ButlerModel.Props.C14"])
            if not ctx.quick():
                core.leanchecker(ctx, ["ButlerModel.Props.C14"])
    with repo.Scratch("verif-c14-") as tmp:
        correspondence(ctx, built, tmp)


# ------------------------------------------------------------------ generator
PREC = {"OR": 1, "AND": 2, "NOT": 3, "CMP": 4, "IN": 5, "+": 6, "-": 6, "*": 7, "/": 7, "%": 7, "U": 8, "ATOM": 9}
CMPS = ["=", "!=", "<", "<=", ">", ">=", "OVERLAPS"]


def gen_value(rng, depth):
    r = rng.random()
    if depth <= 0 or r < 0.35:
        return gen_atom(rng)
    if r < 0.7:
        return ("bin", rng.choice(["+", "-", "*", "/", "%"]), gen_value(rng, depth - 1), gen_value(rng, depth - 1))
    if r < 0.8:
        return ("un", rng.choice(["+", "-"]), gen_value(rng, depth - 1))
    if r < 0.9:
        return ("par", gen_bool(rng, depth - 1) if rng.random() < 0.3 else gen_value(rng, depth - 1))
    if r < 0.95:
        return ("fn", rng.choice(["f", "point", "POINT", "max_"]), [gen_value(rng, depth - 1) for _ in range(rng.choice([0, 1, 2, 2, 3]))])
    return ("tup", gen_value(rng, depth - 1), gen_value(rng, depth - 1))


def gen_atom(rng):
    r = rng.random()
    if r < 0.3:
        return ("id", rng.choice(["a", "b", "visit", "x_1", "_y", "detector.id", "a.b.c", "Nota", "inx", "ORe", "T", "t1"]))
    if r < 0.6:
        return ("num", rng.choice(["0", "1", "42", "1.5", "1.", ".5", "1e3", "1.5E-3", "007", "12345678901234567890"]))
    if r < 0.75:
        return ("str", rng.choice(["", "x", "a b", "it s", "AND", "1..2", "T", ":x", "(", "é"]))
    if r < 0.85:
        return ("bind", rng.choice(["x", "_b", "in_", "NOT1"]))
    if rng.random() < 0.4:
        # fractional seconds of every length up to a nanosecond, in the spellings that carry them
        frac = "".join(rng.choice("0123456789") for _ in range(rng.randint(1, 9)))
        sep = rng.choice([" ", "T"])
        return ("time", rng.choice(["", "iso/" if sep == " " else "isot/"]) + f"20{rng.randint(10, 29)}-0{rng.randint(1, 9)}-{rng.randint(10, 28)}{sep}"
                f"{rng.randint(10, 23)}:{rng.randint(10, 59)}:{rng.randint(10, 59)}.{frac}" + rng.choice(["", "/tai", "/utc", "/tt"]))
    return ("time", rng.choice(["2020-01-01", "2020-01-01T12:34:56.5", "mjd/58000.5", "2020-01-01 00:00:00/tai", "jd/2458000.5/tt",
                                 "2020:100:12:00:00", "58000.25", "iso/2021-03-04 05:06:07.891/utc"]))


def gen_inlist(rng):
    items = []
    for _ in range(rng.randint(1, 4)):
        r = rng.random()
        if r < 0.35:
            items.append(("num", rng.choice(["1", "-2", "+3", "4.5"])))
        elif r < 0.65:
            a, b = rng.randint(-9, 9), rng.randint(-9, 20)
            items.append(("range", a, b, rng.choice([None, None, 1, 2, 10])))
        elif r < 0.8:
            items.append(("str", rng.choice(["a", "b c"])))
        elif r < 0.9:
            items.append(("id", rng.choice(["a", "v.w"])))
        else:
            items.append(("bind", "lst"))
    return items


def gen_bool(rng, depth):
    r = rng.random()
    if depth <= 0 or r < 0.3:
        q = rng.random()
        if q < 0.55:
            return ("bin", rng.choice(CMPS), gen_value(rng, max(depth - 1, 0)), gen_value(rng, max(depth - 1, 0)))
        if q < 0.85:
            return ("in", gen_value(rng, max(depth - 1, 0)), gen_inlist(rng), rng.random() < 0.3)
        return gen_atom(rng)
    if r < 0.55:
        return ("bin", "AND", gen_bool(rng, depth - 1), gen_bool(rng, depth - 1))
    if r < 0.8:
        return ("bin", "OR", gen_bool(rng, depth - 1), gen_bool(rng, depth - 1))
    if r < 0.92:
        return ("un", "NOT", gen_bool(rng, depth - 1))
    return ("par", gen_bool(rng, depth - 1))


def prec_of(t):
    k = t[0]
    if k == "bin":
        return PREC["CMP"] if t[1] in CMPS else PREC[t[1]]
    if k == "un":
        return PREC["NOT"] if t[1] == "NOT" else PREC["U"]
    if k == "in":
        return PREC["IN"]
    return PREC["ATOM"]


def kw(rng, w, vary):
    if not vary:
        return w
    return "".join(c.upper() if rng.random() < 0.5 else c.lower() for c in w)


def render(t, rng=None, vary=False, sp=" "):
    """Print with the minimum of parentheses the documented precedence (C/Python-like, left-assoc) needs.
    Returns (text, tree as the parser should see it, i.e. with explicit ('par', ..) where we had to add parentheses)."""
    k = t[0]

    def sub(x, need):
        txt, tree = render(x, rng, vary, sp)
        if need:
            return "(" + txt + ")", ("par", tree)
        return txt, tree

    if k == "bin":
        op = t[1]
        p = prec_of(t)
        if op in CMPS:
            # comparison operands: anything binding looser than IN needs parentheses; so do nested comparisons (non-associative)
            l, lt = sub(t[2], prec_of(t[2]) < PREC["IN"])
            r, rt = sub(t[3], prec_of(t[3]) < PREC["IN"])
        else:
            l, lt = sub(t[2], prec_of(t[2]) < p)
            r, rt = sub(t[3], prec_of(t[3]) <= p)  # left-associative
        o = kw(rng, op, vary) if op in ("AND", "OR", "OVERLAPS") else op
        return f"{l}{sp}{o}{sp}{r}", ("bin", op, lt, rt)
    if k == "un":
        op = t[1]
        if op == "NOT":
            x, xt = sub(t[2], prec_of(t[2]) < PREC["NOT"])
            return f"{kw(rng, 'NOT', vary)}{sp}{x}", ("un", "NOT", xt)
        x, xt = sub(t[2], prec_of(t[2]) < PREC["U"])
        return f"{op}{sp if sp != '' else ''}{x}", ("un", op, xt)
    if k == "in":
        x, xt = sub(t[1], prec_of(t[1]) < PREC["+"])
        items = []
        for it in t[2]:
            if it[0] == "range":
                items.append(f"{it[1]}..{it[2]}" + (f":{it[3]}" if it[3] else ""))
            else:
                items.append(render(it, rng, vary, sp)[0])
        neg = (kw(rng, "NOT", vary) + " ") if t[3] else ""
        return f"{x}{sp}{neg}{kw(rng, 'IN', vary)}{sp}({(',' + sp).join(items)})", ("in", xt, t[2], t[3])
    if k == "par":
        x, xt = render(t[1], rng, vary, sp)
        return f"({x})", ("par", xt)
    if k == "fn":
        parts = [render(a, rng, vary, sp) for a in t[2]]
        return f"{t[1]}({(',' + sp).join(p[0] for p in parts)})", ("fn", t[1], [p[1] for p in parts])
    if k == "tup":
        a, at = render(t[1], rng, vary, sp)
        b, bt = render(t[2], rng, vary, sp)
        return f"({a},{sp}{b})", ("tup", at, bt)
    if k == "id":
        return t[1], t
    if k == "num":
        return t[1], t
    if k == "str":
        return f"'{t[1]}'", t
    if k == "bind":
        return ":" + t[1], t
    if k == "time":
        return f"{'T' if not vary or rng.random() < 0.7 else 't'}'{t[1]}'", t
    if k == "range":
        return f"{t[1]}..{t[2]}" + (f":{t[3]}" if t[3] else ""), t
    raise ValueError(t)


def expected_sexp(t):
    """S-expression the parser should produce for an intended tree (same syntax as the model's `sexp`)."""
    k = t[0]
    if k == "bin":
        return f"(B {expected_sexp(t[2])} {t[1]} {expected_sexp(t[3])})"
    if k == "un":
        # a sign directly in front of a numeric literal is folded into the literal by the grammar
        if t[1] in "+-" and t[2][0] == "num":
            return f"(N {t[1]}{t[2][1]})"
        return f"(U {t[1]} {expected_sexp(t[2])})"
    if k == "in":
        items = " ".join(expected_sexp(i) for i in t[2])
        return f"({'!IN' if t[3] else 'IN'} {expected_sexp(t[1])} [{items}])"
    if k == "par":
        return f"(P {expected_sexp(t[1])})"
    if k == "fn":
        if t[1].upper() == "POINT" and len(t[2]) == 2:
            return f"(POINT {expected_sexp(t[2][0])} {expected_sexp(t[2][1])})"
        return f"(F {t[1]} [{' '.join(expected_sexp(a) for a in t[2])}])"
    if k == "tup":
        return f"(TUP {expected_sexp(t[1])} {expected_sexp(t[2])})"
    if k == "id":
        return f"(ID {t[1]})"
    if k == "num":
        return f"(N {t[1]})"
    if k == "str":
        return f"(S {len(t[1])}:{t[1]})"
    if k == "bind":
        return f"(: {t[1]})"
    if k == "time":
        return "(T)"
    if k == "range":
        return f"(R {t[1]},{t[2]},{t[3]})"
    raise ValueError(t)


import re as _re

_FOLD = _re.compile(r"\(U ([+-]) \(N ([^()]*)\)\)")


def fold_signs(sx: str) -> str:
    """`- 1` may parse as a signed literal or as unary minus applied to a literal (an LALR conflict resolved by context);
    both mean the same, so the precedence oracle compares trees modulo that."""
    while True:
        new = _FOLD.sub(lambda m: f"(N {m.group(1)}{m.group(2)})", sx)
        if new == sx:
            return sx
        sx = new


def hexs(s: str) -> str:
    return s.encode("utf-8").hex() or "-"


def correspondence(ctx, model_ok, tmp):
    from lsst.daf.butler.registry.queries.expressions.parser import ParserYacc, exprTree
    from lsst.daf.butler.registry.queries.expressions.parser.parserLex import ParserLex, ParserLexError
    from lsst.daf.butler.registry.queries.expressions.parser.parserYacc import ParseError, ParserEOFError, ParserYaccError

    rng = ctx.rng
    parser = ParserYacc()
    req, impl = [], []

    def viol(what, key, replay):
        ctx.violations.append(core.Violation(what=what, key=key, replay=replay))

    def py_sexp(n):
        T = exprTree
        if isinstance(n, T.BinaryOp):
            return f"(B {py_sexp(n.lhs)} {n.op} {py_sexp(n.rhs)})"
        if isinstance(n, T.UnaryOp):
            return f"(U {n.op} {py_sexp(n.operand)})"
        if isinstance(n, T.StringLiteral):
            return f"(S {len(n.value)}:{n.value})"
        if isinstance(n, T.TimeLiteral):
            return "(T)"
        if isinstance(n, T.NumericLiteral):
            return f"(N {n.value})"
        if isinstance(n, T.Identifier):
            return f"(ID {n.name})"
        if isinstance(n, T.BindName):
            return f"(: {n.name})"
        if isinstance(n, T.RangeLiteral):
            return f"(R {n.start},{n.stop},{n.stride})"
        if isinstance(n, T.IsIn):
            return f"({'!IN' if n.not_in else 'IN'} {py_sexp(n.lhs)} [{' '.join(py_sexp(v) for v in n.values)}])"
        if isinstance(n, T.Parens):
            return f"(P {py_sexp(n.expr)})"
        if isinstance(n, T.TupleNode):
            return "(TUP " + " ".join(py_sexp(i) for i in n.items) + ")"
        if isinstance(n, T.PointNode):
            return f"(POINT {py_sexp(n.ra)} {py_sexp(n.dec)})"
        if isinstance(n, T.FunctionCall):
            return f"(F {n.name} [{' '.join(py_sexp(a) for a in n.args)}])"
        return f"(?{type(n).__name__})"

    def times(n, out):
        T = exprTree
        if isinstance(n, T.TimeLiteral):
            out.append(n.value)
        for attr in ("lhs", "rhs", "operand", "expr", "ra", "dec"):
            if hasattr(n, attr):
                times(getattr(n, attr), out)
        for attr in ("values", "items", "args"):
            if hasattr(n, attr):
                for x in getattr(n, attr):
                    times(x, out)
        return out

    def py_parse(s):
        try:
            tree = parser.parse(s)
            return ("ok", tree)
        except ParseError:
            return ("err Parse", None)
        except ParserEOFError:
            return ("err EOF", None)
        except ParserYaccError as e:
            return ("err Lex" if isinstance(e.__cause__, ParserLexError) else "err Parse", None)
        except ValueError:
            return ("err Value", None)
        except Exception as e:
            return (f"err INTERNAL:{type(e).__name__}", None)

    def py_lex(s):
        lx = ParserLex.make_lexer()
        lx.input(s)
        out = []
        try:
            while True:
                t = lx.token()
                if t is None:
                    break
                v = t.value
                if t.type == "RANGE_LITERAL":
                    v = f"{v[0]},{v[1]},{v[2]}"
                out.append(f"{t.type}:{hexs(str(v))}")
            return "ok" + ("" if not out else " " + " ".join(out))
        except ParserLexError:
            return "err Lex"

    from lsst.daf.butler.registry.queries.expressions.parser.parserYacc import _parseTimeString

    def bad_time_literal(s):
        lx = ParserLex.make_lexer()
        lx.input(s)
        try:
            while True:
                t = lx.token()
                if t is None:
                    return False
                if t.type == "TIME_LITERAL":
                    try:
                        _parseTimeString(t.value)
                    except ValueError:
                        return True
        except ParserLexError:
            return False

    seen = set()

    def check_string(s, kind, lex_too=True):
        if s in seen or "\r" in s:
            return None
        seen.add(s)
        ctx.evaluations += 1
        ctx.count(kind)
        if len(s.split()) >= 3:
            ctx.nontrivial.add(s)
        st, tree = py_parse(s)
        if bad_time_literal(s):
            # the *validity* of a time string is astropy's business and is not modelled: compare tokens only
            ctx.count("time-literal-content-invalid(parse not compared)")
        else:
            req.append("expr parse " + hexs(s))
            impl.append("ok " + py_sexp(tree) if tree is not None else ("ok EMPTY" if st == "ok" else st))
        if lex_too:
            req.append("expr lex " + hexs(s))
            impl.append(py_lex(s))
        if st.startswith("err INTERNAL"):
            viol(f"parse({s!r}) raised {st[4:]} instead of a ParserYaccError", f"internal:{s}", {"kind": "parse", "input": s})
        return tree

    # ---- 1. grammar-directed strings with oracles
    n_gen = 1500 if ctx.quick() else 40000
    for i in range(n_gen):
        t = gen_bool(rng, rng.choice([1, 2, 2, 3, 3, 4]))
        text, intended = render(t)
        tree = check_string(text, "generated")
        if tree is None:
            continue
        want = expected_sexp(intended)
        got = py_sexp(tree)
        if fold_signs(got) != fold_signs(want):
            viol(f"`{text}` parses as {got}; documented precedence/associativity gives {want}", f"precedence:{text}",
                 {"kind": "parse", "input": text, "got": got, "want": want})
            continue
        # keyword case / whitespace variants parse to the same tree
        for variant_kind in ("case", "space", "nospace"):
            if variant_kind == "case":
                vtext, _ = render(t, rng, vary=True)
            elif variant_kind == "space":
                vtext, _ = render(t, rng, vary=False, sp=rng.choice(["  ", "\t", " \n ", "\n"]))
            else:
                vtext = None
            if vtext is None or vtext == text:
                continue
            vt = check_string(vtext, "variant:" + variant_kind, lex_too=False)
            if vt is None:
                if vtext in seen and py_parse(vtext)[0] != "ok":
                    viol(f"variant `{vtext!r}` of `{text}` is rejected", f"variant-rejected:{text}:{variant_kind}", {"kind": "parse", "input": vtext})
                continue
            if py_sexp(vt) != got:
                viol(f"{variant_kind} variant {vtext!r} parses as {py_sexp(vt)}, original `{text}` as {got}", f"variant:{text}:{variant_kind}",
                     {"kind": "parse", "input": vtext, "original": text})
        # redundant parentheses
        pt = check_string("(" + text + ")", "parens", lex_too=False)
        if pt is not None and py_sexp(pt) != f"(P {got})":
            viol(f"`({text})` parses as {py_sexp(pt)}, expected (P {got})", f"parens:{text}", {"kind": "parse", "input": "(" + text + ")"})
        # print -> parse round trip
        printed = str(tree)
        req.append("expr print " + hexs(text))
        impl.append("ok " + hexs(printed) if "(T)" not in got else "skip")
        if "(T)" in got:
            req.pop(), impl.pop()
        rt_st, rt = py_parse(printed)
        if rt is None or py_sexp(rt) != got:
            has_bind, has_time = "(: " in got, "(T)" in got
            key = f"roundtrip:{text}"
            viol(f"str(parse(`{text}`)) = `{printed}` re-parses as {py_sexp(rt) if rt is not None else rt_st}, original tree {got}", key,
                 {"kind": "roundtrip", "input": text, "printed": printed})
        elif "(T)" in got:
            a, b = times(tree, []), times(rt, [])
            if len(a) != len(b) or any(abs((x - y).to_value("s")) > 1e-9 or x.scale != y.scale for x, y in zip(a, b)):
                viol(f"time literal changes value in print/parse round trip: `{text}` -> `{printed}`", f"roundtrip-time:{text}",
                     {"kind": "roundtrip", "input": text, "printed": printed})

    # ---- 2. documented literal values
    for s, want in [("1..5", (1, 5, None)), ("-3..-1", (-3, -1, None)), ("1 .. 5 : 2", (1, 5, 2)), ("0..10:1", (0, 10, 1)), ("10..-10:5", (10, -10, 5))]:
        tr = py_parse(f"a IN ({s})")[1]
        ctx.evaluations += 1
        v = tr.values[0] if tr is not None else None
        if v is None or (v.start, v.stop, v.stride) != want:
            viol(f"range literal `{s}` has value {v and (v.start, v.stop, v.stride)}, documented {want}", f"range-value:{s}", {"kind": "literal", "input": s})
    import astropy.time
    for s, want in [("2020-01-01T00:00:00", astropy.time.Time("2020-01-01T00:00:00", format="isot", scale="utc")),
                    ("mjd/58000.5", astropy.time.Time(58000.5, format="mjd", scale="tai")),
                    ("2020-01-01 00:00:00/tai", astropy.time.Time("2020-01-01 00:00:00", format="iso", scale="tai")),
                    ("jd/2458000.5/tt", astropy.time.Time(2458000.5, format="jd", scale="tt"))]:
        tr = py_parse(f"a = T'{s}'")[1]
        ctx.evaluations += 1
        v = tr.rhs.value if tr is not None else None
        if v is None or v.scale != want.scale or abs((v - want).to_value("s")) > 1e-9:
            viol(f"time literal T'{s}' has value {v}, documented {want}", f"time-value:{s}", {"kind": "literal", "input": s})
    for s in ["T'garbage'", "T'2020-13-45'", "T'xyz/2020-01-01'", "T'2020-01-01/nosuchscale'"]:
        st, _ = py_parse(f"a = {s}")
        ctx.evaluations += 1
        if st != "err Parse":
            viol(f"invalid time literal {s} -> {st}, expected a ParseError", f"time-invalid:{s}", {"kind": "literal", "input": s})

    # ---- 3. mutated / garbage strings: token streams, trees and error classes must agree with the model
    base = [render(gen_bool(rng, rng.choice([1, 2, 3])))[0] for _ in range(400 if ctx.quick() else 8000)]
    alphabet = list("abcNOTandIn()<>=!+-*/%,.:'\"$#@&|~ \t\n0123456789eET_") + ["..", "é", "→", "''", " . ", ":1"]
    for s in base:
        m = rng.random()
        toks = s.split(" ")
        if m < 0.25 and len(toks) > 1:
            del toks[rng.randrange(len(toks))]
            s2 = " ".join(toks)
        elif m < 0.5:
            toks.insert(rng.randrange(len(toks) + 1), rng.choice(["AND", "OR", "NOT", "IN", "(", ")", "=", "1", "a", ",", "..", "'", "T'", ":"]))
            s2 = " ".join(toks)
        elif m < 0.65 and len(toks) > 2:
            i = rng.randrange(len(toks) - 1)
            toks[i], toks[i + 1] = toks[i + 1], toks[i]
            s2 = " ".join(toks)
        elif m < 0.85:
            pos = rng.randrange(len(s) + 1)
            s2 = s[:pos] + rng.choice(alphabet) + s[pos:]
        else:
            pos = rng.randrange(len(s))
            s2 = s[:pos] + s[pos + 1:]
        check_string(s2, "mutated")
    lexy = ["1", "1.", ".5", "1.5e", "1e5", "1e+", "1..2", "1 ..2", "1.. 2:", "1..2:0", "1..2:03", "-1..-2", "a IN (9..02)", "a IN (-0..6:10)", "a IN (-007..-00, 0010..0)", "1...2", "a.b", "a.b.c", "a.b.c.d", "a.", ".a",
            "a..b", "''", "'a'b'", "'a\nb'", "T''", "t'x'", "TT'x'", "T 'x'", ":a", ": a", ":1", "<=>", "!==", "! =", "a<>b", "nOt", "NOTa", "a--1",
            "a - -1", "a -1..2", "a - 1..2", "1 - 1", "1-1", "- 1", "--1", "+-1", "in", "a in(1)", "a not in (1)", "a not  in (1)", "a in ()", "a in (1,)",
            "f()", "f(,)", "f(1,)", "POINT(1,2)", "point(1, 2)", "POINT(1)", "POINT()", "(1,2)", "(1,2,3)", "()", "", " ", "\n", "a\n=\n1", "a = 1 ;",
            "1e400", "a = 99999999999999999999", "0x10", "1_000", "a.b = 1.e5", "x overlaps (T'2020-01-01', T'2021-01-01')"]
    for s in lexy:
        check_string(s, "lexer-focused")
    for _ in range(300 if ctx.quick() else 6000):
        check_string("".join(rng.choice(alphabet) for _ in range(rng.randint(1, 12))), "garbage")

    # ---- 4. user-facing error discipline of the query API
    error_discipline(ctx, tmp, viol)

    for i in range(0, len(req), max(1, len(req) // 6)):
        ctx.sample({"request": req[i], "implementation": impl[i][:160]})
    if model_ok:
        got = core.driver(req)
        nd = 0
        for line, m, i in zip(req, got, impl):
            if m != i:
                nd += 1
                if nd <= 5:
                    src = bytes.fromhex(line.split()[-1]).decode("utf-8", "replace") if line.split()[-1] != "-" else ""
                    ctx.broken.append(f"correspondence: `{line.split()[1]} {src!r}` model={m[:120]} implementation={i[:120]}")
        ctx.extra["correspondence_lines"] = len(req)
        ctx.extra["correspondence_disagreements"] = nd
    else:
        ctx.notes.append("model not built: correspondence skipped, implementation searched with the oracles only")


def error_discipline(ctx, tmp, viol):
    from lsst.daf.butler import Butler
    from lsst.daf.butler._exceptions import ButlerUserError, InvalidQueryError

    b = repo.make_butler(os.path.join(tmp, "r"))
    repo.basic_dimensions(b, detectors=tuple(range(1, 13)))
    # documented values of range literals, observed through the query API (inclusive ends, stride anchored at the start)
    for a, z, st in [(1, 8, 2), (1, 9, 2), (2, 11, 3), (3, 3, None), (1, 12, 5), (1, 12, 1), (2, 7, 4), (5, 12, 7)]:
        lit = f"{a}..{z}" + (f":{st}" if st else "")
        want = {x for x in range(1, 13) if a <= x <= z and (x - a) % (st or 1) == 0}
        for neg in (False, True):
            w = f"detector {'NOT ' if neg else ''}IN ({lit})"
            got = {d["detector"] for d in b.query_data_ids(["detector"], where=w, instrument="I", explain=False)}
            ctx.evaluations += 1
            exp = set(range(1, 13)) - want if neg else want
            if got != exp:
                viol(f"where={w!r} selects detectors {sorted(got)}, the documented meaning of the range literal gives {sorted(exp)}",
                     f"range-semantics:{lit}:{neg}", {"kind": "where", "where": w, "got": sorted(got), "want": sorted(exp)})
    # documented values of numeric literals, observed through the query API: integers, and floats in decimal and exponent notation
    # (either case of the exponent letter, signed exponents, leading or trailing dot)
    rng = ctx.rng
    b.registry.insertDimensionData("day_obs", {"instrument": "I", "id": 20200101})
    b.registry.insertDimensionData("visit", *[{"instrument": "I", "id": k, "name": f"v{k}", "physical_filter": "f", "day_obs": 20200101, "exposure_time": float(k)}
                                              for k in range(1, 13)])
    for v in [3, 7, 10, 12, 2.5, 0.5, 11.5, 100, 0.002, 6.25]:
        spell = {repr(v), f"{v:.1f}", f"{v:e}", f"{v:E}", f"{v:.3e}".replace("e+0", "e").replace("e-0", "e-"), f"{v:.2E}".replace("E+0", "E+").replace("E-0", "E-"),
                 f"{v * 10:g}e-1", f"{v * 10:g}E-1", f"{v / 10:g}e1", f"{v / 10:g}E1", f"{v / 10:g}e+1", f"{v / 10:g}E+1"}
        if float(v).is_integer():
            spell |= {f"{int(v)}", f"{int(v)}.", f"{int(v)}.0", f"{int(v)}e0", f"{int(v)}E0", f"0{int(v)}"}
        if 0 < v < 1:
            spell |= {repr(v)[1:], f"{repr(v)[1:]}e0", f"{repr(v)[1:]}E0"}
        for lit in sorted(spell):
            try:
                val = float(lit)
            except ValueError:
                continue
            if abs(val - v) > 1e-12:
                continue
            # an integer literal is compared with an integer column, a float literal with a float column (visit k was exposed for k seconds)
            is_int = lit.isdigit()
            col, dim = ("detector", "detector") if is_int else ("visit.exposure_time", "visit")
            for op, fn in (("<", lambda d, x: d < x), (">=", lambda d, x: d >= x), ("=", lambda d, x: d == x)):
                w = f"{col} {op} {lit}"
                ctx.evaluations += 1
                ctx.count("numeric-literal-semantics:" + ("int" if is_int else "float"))
                want = {d for d in range(1, 13) if fn(d, v)}
                try:
                    got = {d[dim] for d in b.query_data_ids([dim], where=w, instrument="I", explain=False)}
                except Exception as e:
                    got = f"{type(e).__name__}: {str(e)[:60]}"
                if got != want:
                    viol(f"where={w!r} selects {sorted(got) if isinstance(got, set) else got}; the literal is the number {v}, which gives {sorted(want)}",
                         f"numeric-semantics:{lit}:{op}", {"kind": "where", "where": w})
    # stacked unary signs: `- -3` is 3, `+-3` is -3, whatever the spacing; also next to a binary minus
    for lit, val in [("- -3", 3), ("--3", 3), ("+-3", -3), ("-+3", -3), ("-(-3)", 3), ("- - -3", -3), ("+ +3", 3), ("- - 3", 3), ("-(- -3)", -3), ("++3", 3)]:
        for w, fn in ((f"detector = {lit}", lambda d: d == val), (f"detector > {lit}", lambda d: d > val), (f"detector - {lit} = 5", lambda d: d - val == 5),
                      (f"{lit} + detector = 6", lambda d: val + d == 6), (f"detector IN (1, 2) OR detector = {lit}", lambda d: d in (1, 2) or d == val)):
            ctx.evaluations += 1
            ctx.count("signed-literal-semantics")
            want = {d for d in range(1, 13) if fn(d)}
            try:
                got = {d["detector"] for d in b.query_data_ids(["detector"], where=w, instrument="I", explain=False)}
            except Exception as e:
                got = f"{type(e).__name__}: {str(e)[:60]}"
            if got != want:
                viol(f"where={w!r} selects {sorted(got) if isinstance(got, set) else got}; with `{lit}` = {val} the documented meaning gives {sorted(want)}",
                     f"signed-literal:{w}", {"kind": "where", "where": w})
    # an unqualified field name that both a dimension element and a joined dataset type have (`timespan`) is ambiguous: it must be
    # rejected, never silently given one of the two meanings
    from lsst.daf.butler import DatasetType as _DT

    dd = _DT("c14_dd", {"instrument", "day_obs"}, "StructuredDataDict", universe=b.dimensions)
    b.registry.registerDatasetType(dd)
    b.registry.registerRun("c14_run")
    b.put({"x": 1}, dd, instrument="I", day_obs=20200101, run="c14_run")
    for w in ["timespan.begin < T'2030-01-01'", "timespan.end > T'2000-01-01'", "timespan OVERLAPS T'2020-01-01T12:00:00'"]:
        ctx.evaluations += 1
        ctx.count("ambiguous-identifier")
        try:
            rows = b.query_datasets(dd, collections="c14_run", where=w, instrument="I", explain=False)
            viol(f"query_datasets('c14_dd' over day_obs, where={w!r}): `timespan` names both day_obs.timespan and the dataset's timespan, yet the "
                 f"expression was accepted ({len(rows)} rows)", f"ambiguous-identifier:{w}", {"kind": "where", "where": w})
        except InvalidQueryError:
            pass
        except Exception as e:
            viol(f"query_datasets(where={w!r}) with an ambiguous identifier raised {type(e).__name__} instead of the documented query error",
                 f"ambiguous-identifier-error:{w}", {"kind": "where", "where": w})
    # documented meaning of IN / NOT IN over lists of scalars, ranges and bound values of every length
    for _ in range(120 if ctx.quick() else 3000):
        items, members, bind = [], set(), {}
        for j in range(rng.randint(1, 4)):
            r = rng.random()
            if r < 0.4:
                x = rng.randint(0, 13)
                items.append(str(x)), members.add(x)
            elif r < 0.6:
                a = rng.randint(0, 12)
                z, st = rng.randint(a, 14), rng.choice([None, 1, 2, 3])  # an empty (descending) range is refused, see `bad` below
                items.append(f"{a}..{z}" + (f":{st}" if st else ""))
                members |= {x for x in range(a, z + 1) if (x - a) % (st or 1) == 0}
            elif r < 0.8:
                x = rng.randint(0, 13)
                bind[f"b{j}"] = x
                items.append(f":b{j}"), members.add(x)
            else:
                xs = [rng.randint(0, 13) for _ in range(rng.randint(1, 3))]
                bind[f"b{j}"] = rng.choice([list, tuple, set])(xs)
                items.append(f":b{j}"), members.update(xs)
        neg = rng.random() < 0.5
        form = rng.choice(["plain", "plain", "not-outside"]) if neg else "plain"
        w = f"detector {'NOT ' if neg and form == 'plain' else ''}IN ({', '.join(items)})"
        if form == "not-outside":
            w = f"NOT ({w})"
        want = {d for d in range(1, 13) if (d in members) != neg}
        ctx.evaluations += 1
        ctx.count(f"in-list-semantics:{len(items)}:{'neg' if neg else 'pos'}")
        try:
            got = {d["detector"] for d in b.query_data_ids(["detector"], where=w, bind=bind or None, instrument="I", explain=False)}
        except Exception as e:
            got = f"{type(e).__name__}: {str(e)[:60]}"
        if got != want:
            viol(f"where={w!r} bind={bind} selects {sorted(got) if isinstance(got, set) else got}, the documented meaning gives {sorted(want)}",
                 f"in-semantics:{w}:{sorted(bind.items(), key=str)}", {"kind": "where", "where": w, "bind": {k: list(v) if not isinstance(v, int) else v for k, v in bind.items()}})
    # a bind name that is not bound is an error even when it happens to be spelled like an identifier
    for w in ["detector = :detector", "detector IN (:detector)", "instrument = :instrument", "detector = :full_name", "detector != :null"]:
        ctx.evaluations += 1
        try:
            rows = list(b.query_data_ids(["detector"], where=w, instrument="I", explain=False))
            viol(f"where={w!r} without a bind value is accepted ({len(rows)} rows) instead of being rejected: the bind name was given another meaning",
                 f"unbound-bind:{w}", {"kind": "where", "where": w})
        except InvalidQueryError:
            pass
        except Exception as e:
            viol(f"where={w!r} without a bind value raised {type(e).__name__}", f"unbound-bind-error:{w}", {"kind": "where", "where": w})
    bad = [
        "detector =", "detector = = 1", "(detector = 1", "detector = 1)", "detector $ 1", "detector = 'a", "detector IN", "detector IN ()",
        "5", "1..2", "detector", "'abc'", "detector + 1", "NOT 5", "(detector = 1) IN (1)", "NULL IN (1)", "detector IN (NULL)",
        "f(detector) = 1", "POINT(1) = 1", "POINT(1,2) = 1", "detector = 99999999999999999999", "detector = 1e400", "nosuchthing = 1",
        "detector.nosuchfield = 1", "detector = 'a' + 1", "detector = T'2020-01-01'", "detector < 'a'", "detector AND instrument", "detector = :unbound",
        "detector IN (:unbound)", "T'garbage' = detector", "detector = 1 AND", "detector OVERLAPS 1", "instrument = 1", "-'a' = detector",
        "visit.region OVERLAPS POINT(10, 100)", "visit.region OVERLAPS POINT(1, -91)", "visit.region OVERLAPS POINT(1)", "visit.region OVERLAPS POINT('a', 2)",
        "visit.region OVERLAPS POINT(1, 2, 3)", "visit.region OVERLAPS POINT(detector, 2)",
        "detector = (1, 2)", "visit.timespan OVERLAPS (1, 2)", "detector IN (1..2:0)", "detector IN (5..2)", "detector % 'a' = 1", "detector IN (1, 'a')",
    ]
    for w in bad:
        ctx.evaluations += 1
        ctx.count("error-discipline")
        try:
            list(b.query_data_ids(["detector"], where=w, instrument="I", explain=False))
            out = "accepted"
        except InvalidQueryError:
            out = "InvalidQueryError"
        except ButlerUserError as e:
            out = "user:" + type(e).__name__
        except Exception as e:
            out = "INTERNAL:" + type(e).__name__
        if out.startswith("INTERNAL"):
            viol(f"query_data_ids(where={w!r}) raised {out[9:]} instead of the documented user-facing query error",
                 f"error-class:{out[9:]}:{w}", {"kind": "where", "where": w, "got": out})


def replay(ctx, content):
    print("replay:", content.get("what"))
    run(ctx)
    return core.finish(ctx)
