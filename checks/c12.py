"""C12 — dimension groups are dependency-closed sets obeying lattice laws.

Tie: F (every shipped universe is dumped from the live objects into Gen/Universe.lean and
kernel-checked well-formed; the generic theorems of Props/C12.lean then apply to it) + C (exhaustive
over all 2^13 subsets of the non-skypix dimensions of the default universe, pairs of the resulting
groups, sampled skypix subsets and older universes: names / required / implied / elements /
lookup_order / union / intersection compared with the Lean model).
Oracle (model-free): least-fixed-point closure and plain set algebra on name sets in the harness.
"""
from __future__ import annotations

import itertools
import os
import sys

from vlib import core

LEVEL = "proof"
LEAN_TARGETS = ["ButlerModel.Props.C12", "driver"]


def gen(ctx):
    sys.path.insert(0, os.path.join(core.VERIF, "translate"))
    import gen_universe

    try:
        return gen_universe.generate(core.GEN_DIR)
    except Exception as e:
        ctx.broken.append(f"fact extraction (universe): {type(e).__name__}: {e}")
        return None


def run(ctx):
    ctx.rule = (
        "default universe: every subset of the 13 non-skypix dimensions (8192, exhaustive) -> group; all (thorough) or "
        "a seeded sample (quick) of ordered pairs of the 460 distinct groups for | & <= == isdisjoint hash; sampled "
        "subsets with skypix dimensions; older universes sampled (quick) / exhaustive (thorough); spelling variants "
        "(permutation, duplicates, implied extras); non-trivial = distinct (universe, name set) inputs whose closure "
        "adds at least one name"
    )
    ctx.assumptions = [
        "the fact extractor reports the live DimensionUniverse objects faithfully (element order, required, implied)",
    ]
    with core.Lock():
        data = gen(ctx)
        built = data is not None and core.lean_build(ctx, LEAN_TARGETS)
        if built:
            core.lean_audit(ctx, ["ButlerModel.Props.C12"])
            if not ctx.quick():
                core.leanchecker(ctx, ["ButlerModel.Props.C12"])
    correspondence(ctx, built)


def lfp(dep, names):
    out = set(names)
    changed = True
    while changed:
        changed = False
        for n in list(out):
            for d in dep[n]:
                if d not in out:
                    out.add(d)
                    changed = True
    return out


def correspondence(ctx, model_ok):
    sys.path.insert(0, os.path.join(core.VERIF, "translate"))
    import gen_universe
    from lsst.daf.butler import DimensionGroup

    rng = ctx.rng
    req, impl = [], []

    def viol(what, key, replay):
        ctx.violations.append(core.Violation(what=what, key=key, replay=replay))

    def enc(ix):
        return ",".join(str(i) for i in ix) if ix else "-"

    for tag, u in gen_universe.universes():
        elems = [e.name for e in u.sorted(u.elements.names)]
        idx = {n: i for i, n in enumerate(elems)}
        dims = [d for d in elems if d in u.dimensions.names]
        nonsky = [d for d in dims if d not in u.skypix_dimensions.names]
        sky = [d for d in dims if d in u.skypix_dimensions.names]
        dep = {d: set(u[d].required.names) | set(u[d].implied.names) for d in dims}
        imp = {d: set(u[d].implied.names) for d in dims}
        ereq = {e: set(u[e].required.names) for e in elems}
        uorder = {n: i for i, n in enumerate(elems)}
        is_default = tag == "default"
        # ---- which name subsets
        subsets = []
        if is_default or not ctx.quick():
            for r in range(len(nonsky) + 1):
                for c in itertools.combinations(nonsky, r):
                    subsets.append(c)
        else:
            for _ in range(150):
                subsets.append(tuple(d for d in nonsky if rng.random() < 0.3))
        for _ in range(300 if ctx.quick() else 1500):
            base = [d for d in nonsky if rng.random() < 0.25]
            extra = rng.sample(sky, k=min(len(sky), rng.choice([1, 1, 2, 3]))) if sky else []
            subsets.append(tuple(base + extra))
        groups = {}
        for names in subsets:
            key = f"{tag}:{','.join(names)}"
            try:
                g = DimensionGroup(u, names)
            except Exception as e:
                viol(f"[{tag}] DimensionGroup({list(names)}) raises {type(e).__name__}: {str(e)[:80]}", "raise:" + key, {"kind": "group", "universe": tag, "names": list(names)})
                continue
            ctx.evaluations += 1
            want = lfp(dep, names)
            got = set(g.names)
            if g.universe is not u:
                viol(f"[{tag}] DimensionGroup({list(names)}) belongs to another universe (version {g.universe.version}, asked for {u.version})",
                     "universe:" + key, {"kind": "group", "universe": tag, "names": list(names)})
                continue
            if len(want) > len(set(names)):
                ctx.nontrivial.add(key)
            if got != want:
                viol(f"[{tag}] DimensionGroup({list(names)}).names = {sorted(got)} but the least closed superset is {sorted(want)}",
                     "close:" + key, {"kind": "group", "universe": tag, "names": list(names)})
                continue
            # oracle: partition, required characterisation, closure of required, order, elements
            reqs, imps = set(g.required), set(g.implied)
            want_imp = {d for d in got if any(d in imp[o] for o in got)}
            problems = []
            if imps != want_imp or reqs != got - want_imp:
                problems.append(f"required/implied = {sorted(reqs)}/{sorted(imps)}, expected {sorted(got - want_imp)}/{sorted(want_imp)}")
            if lfp(dep, reqs) != got:
                problems.append("closure of required is not the whole group")
            pos = {n: i for i, n in enumerate(g.names)}
            if list(g.names) != sorted(g.names, key=lambda n: uorder[n]):
                problems.append("names not in universe order")
            for d in g.names:
                for p_ in dep[d]:
                    if p_ != d and pos[p_] >= pos[d]:
                        problems.append(f"names: dependency {p_} does not precede {d}")
            want_elems = [e for e in elems if ereq[e] <= got]
            if list(g.elements) != want_elems:
                problems.append(f"elements = {list(g.elements)}, expected {want_elems}")
            lo = list(g.lookup_order)
            if sorted(lo) != sorted(want_elems) or len(set(lo)) != len(lo):
                problems.append(f"lookup_order {lo} is not a permutation of elements")
            else:
                lpos = {n: i for i, n in enumerate(lo)}
                for e in lo:
                    for p_ in ereq[e]:
                        if p_ != e and lpos[p_] >= lpos[e]:
                            problems.append(f"lookup_order: required {p_} does not precede {e}")
                for d in got - reqs:
                    if not any(d in imp[o] and lpos[o] < lpos[d] for o in got):
                        problems.append(f"lookup_order: no implier precedes {d}")
            if list(g.governors) != [d for d in g.names if d in u.governor_dimensions.names]:
                problems.append("governors wrong")
            if problems:
                viol(f"[{tag}] group of {list(names)}: " + "; ".join(problems[:3]), "group:" + key,
                     {"kind": "group", "universe": tag, "names": list(names), "problems": problems})
            # spelling variants give the very same object
            variant = list(names) + list(names[:2])
            rng.shuffle(variant)
            extras = [d for d in got if d not in names][:2]
            g2 = DimensionGroup(u, variant + extras)
            if g2 is not g or not (g2 == g and hash(g2) == hash(g)):
                viol(f"[{tag}] spelling variant {variant + extras} of {list(names)} gives a different group", "spell:" + key,
                     {"kind": "spelling", "universe": tag, "names": list(names), "variant": variant + extras})
            req.append(f"dim {tag} group {enc([idx[n] for n in names])}")
            impl.append(
                f"names={enc([idx[n] for n in g.names])} req={enc([idx[n] for n in g.required])} "
                f"imp={enc([idx[n] for n in g.implied])} elems={enc([idx[n] for n in g.elements])} "
                f"order={enc([idx[n] for n in g.lookup_order])}"
            )
            groups[frozenset(got)] = g
        ctx.count(f"{tag}:subsets", len(subsets))
        ctx.count(f"{tag}:distinct_groups", len(groups))
        # ---- pairs
        G = list(groups.values())
        pairs = list(itertools.product(range(len(G)), repeat=2))
        limit = None
        if ctx.quick():
            limit = 40000 if is_default else 600
        elif not is_default:
            limit = 8000
        if limit is not None and len(pairs) > limit:
            rng.shuffle(pairs)
            pairs = pairs[:limit]
        for i, j in pairs:
            a, b = G[i], G[j]
            na, nb = set(a.names), set(b.names)
            ctx.evaluations += 1
            try:
                un, it = a | b, a & b
            except Exception as e:
                viol(f"[{tag}] {list(a.names)} | / & {list(b.names)} raises {type(e).__name__}: {str(e)[:80]}", f"pair-raise:{tag}:{sorted(na)}:{sorted(nb)}",
                     {"kind": "pair", "universe": tag, "a": sorted(na), "b": sorted(nb)})
                continue
            problems = []
            if un.universe is not u or it.universe is not u:
                problems.append("the result belongs to another universe")
            if set(un.names) != lfp(dep, na | nb):
                problems.append(f"union = {list(un.names)}")
            if set(it.names) != lfp(dep, na & nb) or set(it.names) != (na & nb):
                problems.append(f"intersection = {list(it.names)} (common names {sorted(na & nb)})")
            for sym, got_, want_ in (("<=", a <= b, na <= nb), (">=", a >= b, na >= nb), ("<", a < b, na < nb), (">", a > b, na > nb),
                                     ("==", a == b, na == nb), ("!=", a != b, na != nb)):
                if got_ != want_:
                    problems.append(f"`{sym}` is {got_}, the name sets say {want_}")
            if a.isdisjoint(b) != na.isdisjoint(nb) or a.issubset(b) != (na <= nb) or a.issuperset(b) != (na >= nb):
                problems.append("isdisjoint/issubset/issuperset disagree with name sets")
            if a == b and hash(a) != hash(b):
                problems.append("equal groups hash differently")
            # lub / glb against every closed group is implied by the two equalities above
            if problems:
                viol(f"[{tag}] {list(a.names)} vs {list(b.names)}: " + "; ".join(problems), f"pair:{tag}:{sorted(na)}:{sorted(nb)}",
                     {"kind": "pair", "universe": tag, "a": sorted(na), "b": sorted(nb), "problems": problems})
            req.append(f"dim {tag} cmp {enc([idx[n] for n in a.names])} {enc([idx[n] for n in b.names])}")
            tf = lambda v: "true" if v else "false"  # noqa: E731
            impl.append(f"le={tf(a <= b)} ge={tf(a >= b)} lt={tf(a < b)} gt={tf(a > b)} eq={tf(a == b)} disjoint={tf(a.isdisjoint(b))}")
            req.append(f"dim {tag} union {enc([idx[n] for n in a.names])} {enc([idx[n] for n in b.names])}")
            impl.append(enc([idx[n] for n in un.names]))
            req.append(f"dim {tag} inter {enc([idx[n] for n in a.names])} {enc([idx[n] for n in b.names])}")
            impl.append(enc([idx[n] for n in it.names]))
        ctx.count(f"{tag}:pairs", len(pairs))
        if is_default:
            ctx.exhaustive = True
            ctx.extra["default_universe_groups"] = len(groups)
        # triples (sampled)
        for _ in range(200 if ctx.quick() else 2500):
            a, b, c = rng.choice(G), rng.choice(G), rng.choice(G)
            ctx.evaluations += 1
            if set(a.union(b, c).names) != lfp(dep, set(a.names) | set(b.names) | set(c.names)) or set(
                a.intersection(b, c).names
            ) != (set(a.names) & set(b.names) & set(c.names)):
                viol(f"[{tag}] n-ary union/intersection wrong for {list(a.names)},{list(b.names)},{list(c.names)}",
                     f"triple:{tag}:{sorted(a.names)}:{sorted(b.names)}:{sorted(c.names)}",
                     {"kind": "triple", "universe": tag})

    # ---- a group handed to another universe version must be re-closed there (or refused if it names unknown dimensions)
    unis = gen_universe.universes()
    for (t1, u1), (t2, u2) in itertools.product(unis, unis):
        if u1 is u2:
            continue
        dims1 = [d for d in u1.dimensions.names if d not in u1.skypix_dimensions.names]
        for _ in range(12 if ctx.quick() else 150):
            names = [d for d in dims1 if rng.random() < 0.2]
            g1 = DimensionGroup(u1, names)
            ctx.evaluations += 1
            try:
                want = set(DimensionGroup(u2, set(g1.names)).names)
            except KeyError:
                want = "KeyError"
            try:
                got = set(DimensionGroup(u2, g1).names)
            except KeyError:
                got = "KeyError"
            if got != want:
                viol(f"DimensionGroup({t2}, <group {sorted(g1.names)} of {t1}>) = {got if got == 'KeyError' else sorted(got)}, but building it from "
                     f"the same names gives {want if want == 'KeyError' else sorted(want)}", f"cross-universe:{t1}:{t2}:{sorted(g1.names)}",
                     {"kind": "cross-universe", "from": t1, "to": t2, "names": sorted(g1.names)})
            # groups of two universe versions compared with each other: ==, hash, <=, >=, isdisjoint agree with the name sets
            if got != "KeyError" and want != "KeyError":
                g2 = DimensionGroup(u2, set(g1.names))
                n1, n2 = set(g1.names), set(g2.names)
                problems = []
                if (g1 == g2) != (n1 == n2) or (g2 == g1) != (n1 == n2):
                    problems.append(f"== is {g1 == g2}, the name sets are {'equal' if n1 == n2 else 'different'}")
                if g1 == g2 and hash(g1) != hash(g2):
                    problems.append("the groups are equal but their hashes differ")
                if (g1 <= g2) != (n1 <= n2) or (g1 >= g2) != (n1 >= n2):
                    problems.append("<= / >= disagree with the name sets")
                if g1.isdisjoint(g2) != n1.isdisjoint(n2):
                    problems.append("isdisjoint disagrees with the name sets")
                ctx.count("cross-universe-comparisons")
                if problems:
                    viol(f"group {sorted(n1)} (required {list(g1.required)}) of universe {t1} and group {sorted(n2)} (required {list(g2.required)}) of {t2}: "
                         + "; ".join(problems), "cross-universe-equal-groups-hash-differently" if problems == ["the groups are equal but their hashes differ"]
                         else f"cross-universe-compare:{t1}:{t2}:{sorted(n1)}", {"kind": "cross-universe", "from": t1, "to": t2, "names": sorted(n1)})
    ctx.count("cross-universe-pairs", len(unis) * (len(unis) - 1))

    # ---- "the same object however it was spelled", also when several threads build a not-yet-cached group at the same moment
    import threading

    from lsst.daf.butler import DimensionConfig, DimensionUniverse

    old_switch = sys.getswitchinterval()
    sys.setswitchinterval(1e-6)
    try:
        # a universe object of its own (another namespace than the shared default), so that none of its groups is cached yet
        cfg = DimensionConfig()
        cfg["namespace"] = "verif_threads"
        tu = DimensionUniverse(cfg)
        tdims = [d for d in tu.dimensions.names if d not in tu.skypix_dimensions.names]
        split = 0
        for n_round in range(120 if ctx.quick() else 700):
            names = [d for d in tdims if rng.random() < 0.35]
            barrier, out = threading.Barrier(8), [None] * 8

            def build(k, names=names, barrier=barrier, out=out):
                barrier.wait()
                out[k] = tu.conform(names if k % 2 else list(reversed(names)))

            ts = [threading.Thread(target=build, args=(k,)) for k in range(8)]
            for t_ in ts:
                t_.start()
            for t_ in ts:
                t_.join()
            ctx.evaluations += 1
            if any(o is not out[0] for o in out) or tu.conform(names) is not out[0]:
                split += 1
                viol(f"8 threads building the group of {names} at the same moment got {len({id(o) for o in out})} different objects "
                     f"(and the universe now hands out {'one of them' if any(tu.conform(names) is o for o in out) else 'yet another'})",
                     "threads-intern", {"kind": "threads", "names": names})
                break
        ctx.count("thread-interning-rounds", n_round + 1)
    finally:
        sys.setswitchinterval(old_switch)

    for i in range(0, len(req), max(1, len(req) // 6)):
        ctx.sample({"request": req[i], "implementation": impl[i]})
    if model_ok:
        got = core.driver(req)
        nd = 0
        for line, m, i in zip(req, got, impl):
            if m != i:
                nd += 1
                if nd <= 5:
                    ctx.broken.append(f"correspondence: `{line}` model={m} implementation={i}")
        ctx.extra["correspondence_lines"] = len(req)
        ctx.extra["correspondence_disagreements"] = nd
    else:
        ctx.notes.append("model not built: correspondence skipped, implementation searched with the set-algebra oracle only")


def replay(ctx, content):
    print("replay:", content.get("what"))
    run(ctx)
    return core.finish(ctx)
