"""C15 — boolean rewriting of predicates preserves their truth table.

Model: hand-written Lean models of `queries/tree/_predicate.py` (CNF algebra) and of the legacy
normaliser `normalForm.py` (Model/Predicate.lean, Model/NormalForm.lean); theorems in Props/C15.lean.
Tie: C — every formula below is built with the real classes, and both the *structure* of the result
(operands / wrapper string / node lists) and its truth table under every K3 assignment are compared with
the model.  Oracle (model-free): direct three-valued evaluation of the original formula in the harness.
"""
from __future__ import annotations

import itertools

from vlib import core

LEVEL = "proof"
LEAN_TARGETS = ["ButlerModel.Props.C15", "driver"]
K = "TFN"


def and3(a, b):
    if a == "F" or b == "F":
        return "F"
    if a == "T" and b == "T":
        return "T"
    return "N"


def or3(a, b):
    if a == "T" or b == "T":
        return "T"
    if a == "F" and b == "F":
        return "F"
    return "N"


def not3(a):
    return {"T": "F", "F": "T", "N": "N"}[a]


# formulas: ("A", k) | ("N", f) | ("&", l, r) | ("|", l, r) | ("P", f) | ("C", bool)   (C only in the new system)
def ev(f, asg):
    t = f[0]
    if t == "A":
        return asg[f[1]]
    if t == "N":
        return not3(ev(f[1], asg))
    if t == "P":
        return ev(f[1], asg)
    if t == "C":
        return "T" if f[1] else "F"
    if t in ("&", "|"):
        vals = [ev(x, asg) for x in f[1:]]
        acc = vals[0]
        for v in vals[1:]:
            acc = and3(acc, v) if t == "&" else or3(acc, v)
        return acc
    raise ValueError(f)


def prefix(f):
    t = f[0]
    if t == "A":
        return f"A {f[1]}"
    if t in ("N", "P"):
        return f"{t} {prefix(f[1])}"
    return f"{t} {prefix(f[1])} {prefix(f[2])}"


ATOM_STYLES = {"ident": "x{k}", "in": "x{k} IN (1, 2)", "notin": "x{k} NOT IN (1, 2)", "cmp": "x{k} = 1", "range": "x{k} IN (1..5:2)", "notrange": "x{k} NOT IN (1..5)"}


def text(f, styles=None):
    """`styles`: atom number -> key of ATOM_STYLES (the other kinds of node the normaliser treats as opaque)."""
    t = f[0]
    if t == "A":
        return ATOM_STYLES[(styles or {}).get(f[1], "ident")].format(k=f[1])
    if t == "N":
        if f[1][0] == "A" and (styles or {}).get(f[1][1], "ident") != "ident":
            return f"NOT ({text(f[1], styles)})"
        return f"NOT {text(f[1], styles)}" if f[1][0] in ("A", "P", "N") else f"NOT ({text(f[1], styles)})"
    if t == "P":
        return f"({text(f[1], styles)})"
    op = " AND " if t == "&" else " OR "
    def sub(x):
        # explicit parentheses whenever precedence would otherwise regroup
        if x[0] in ("&", "|") and x[0] != t:
            return f"({text(x, styles)})"
        if x[0] == t:
            return f"({text(x, styles)})"
        return text(x, styles)
    return sub(f[1]) + op + sub(f[2])


def strip_added_parens(f):
    """`text` adds parentheses around nested binary operands; mirror that in the formula given to the model."""
    t = f[0]
    if t == "A":
        return f
    if t == "N":
        inner = strip_added_parens(f[1])
        return ("N", inner if f[1][0] in ("A", "P", "N") else ("P", inner))
    if t == "P":
        return ("P", strip_added_parens(f[1]))
    def sub(x):
        y = strip_added_parens(x)
        return ("P", y) if x[0] in ("&", "|") else y
    return (t, sub(f[1]), sub(f[2]))


def enum_formulas(natoms, depth):
    level = [("A", k) for k in range(natoms)]
    allf = list(level)
    for _ in range(depth):
        new = [("N", f) for f in allf]
        for op in "&|":
            new += [(op, l, r) for l in allf for r in allf]
        allf = allf + new
    return allf


def rand_formula(rng, natoms, depth, consts=False, nary=False):
    if depth == 0 or rng.random() < 0.15:
        if consts and rng.random() < 0.12:
            return ("C", rng.random() < 0.5)
        return ("A", rng.randrange(natoms))
    r = rng.random()
    if r < 0.25:
        return ("N", rand_formula(rng, natoms, depth - 1, consts, nary))
    if r < 0.3 and not consts:
        return ("P", rand_formula(rng, natoms, depth - 1, consts, nary))
    op = "&" if rng.random() < 0.5 else "|"
    n = 2 if not nary else rng.choice([2, 2, 2, 3, 4])
    return (op,) + tuple(rand_formula(rng, natoms, depth - 1, consts, nary) for _ in range(n))


def enc_pred(operands, atom_of):
    if not operands:
        return "T"
    groups = []
    for g in operands:
        if not g:
            groups.append("-")
        else:
            groups.append(",".join(atom_of(l) for l in g))
    return ";".join(groups)


def run(ctx):
    ctx.rule = (
        "new system: every formula over <=3 atoms and depth <=2 (exhaustive) plus seeded random formulas (<=4 atoms, "
        "depth <=5, n-ary AND/OR, TRUE/FALSE constants) built with Predicate.logical_and/or/not/from_bool and evaluated "
        "with a PredicateVisitor under every K3 assignment; legacy: the same formulas parsed by the real parser and "
        "normalised to CNF and DNF (wrapper string, node lists, toTree() truth table); non-trivial = distinct "
        "formulas containing at least one binary operator"
    )
    ctx.assumptions = [
        "the new system's combinators are translated from the source on every run (translate/gen_predicate.py; the `a is b` shortcut "
        "of _impl_and is translated for distinct objects and modelled by hand for identical ones); the rewriting visitors and the "
        "legacy normaliser are hand-written Lean models tied to the code by this correspondence run (structure and truth tables)"
    ]
    with core.Lock():
        # T-tie: Predicate.from_bool / _impl_and / _impl_or / logical_and / logical_or / logical_not are translated from the
        # working tree into Gen/PredicatePy.lean; the theorems of C15.Translated are about those definitions
        import os
        import sys

        sys.path.insert(0, os.path.join(core.VERIF, "translate"))
        try:
            import gen_predicate

            gen_predicate.generate(core.GEN_DIR)
        except Exception as e:  # Untranslatable or anything else: the tie is broken, the search below still runs
            ctx.broken.append(f"translation: queries/tree/_predicate.py combinators: {type(e).__name__}: {e}")
        built = core.lean_build(ctx, LEAN_TARGETS)
        if built:
            core.lean_audit(ctx, ["ButlerModel.Props.C15"])
            if not ctx.quick():
                core.leanchecker(ctx, ["ButlerModel.Props.C15"])
    correspondence(ctx, built)


def correspondence(ctx, model_ok):
    from lsst.daf.butler.queries import tree as qt
    from lsst.daf.butler.queries.tree import Predicate
    from lsst.daf.butler.queries.visitors import PredicateVisitor
    from lsst.daf.butler.registry.queries.expressions.normalForm import (
        NormalForm,
        NormalFormExpression,
        TransformationVisitor,
    )
    from lsst.daf.butler.registry.queries.expressions.parser import ParserYacc, exprTree

    rng = ctx.rng
    req, impl = [], []

    def viol(what, key, replay):
        ctx.violations.append(core.Violation(what=what, key=key, replay=replay))

    # ------------------------------------------------------------ new query system
    _atoms = {}

    def atom(i):
        # the same leaf *object* is reused wherever an atom occurs (as a caller combining its own predicates would do)
        if i not in _atoms:
            _atoms[i] = Predicate.compare(qt.make_column_literal(i), "==", qt.make_column_literal(0))
        return _atoms[i]

    def leaf_txt(leaf):
        if leaf.predicate_type == "not":
            return "~" + str(leaf.operand.a.value)
        return str(leaf.a.value)

    class Eval(PredicateVisitor):
        def __init__(self, asg):
            self.asg = asg

        def visit_comparison(self, a, operator, b, flags):
            return self.asg[a.value]

        def apply_logical_not(self, original, result, flags):
            return not3(result)

        def apply_logical_or(self, originals, results, flags):
            acc = "F"
            for r in results:
                acc = or3(acc, r)
            return acc

        def apply_logical_and(self, originals, results):
            acc = "T"
            for r in results:
                acc = and3(acc, r)
            return acc

    class TooBig(Exception):
        pass

    LIMIT = 200

    def nclauses_not(x):
        n = 1
        for g in x.operands:
            n *= max(1, len(g))
        return n

    def build(f):
        """Build with the real API, logging one driver request per API call."""
        t = f[0]
        if t == "A":
            return atom(f[1])
        if t == "C":
            p = Predicate.from_bool(f[1])
            req.append(f"pred frombool {int(f[1])}")
            impl.append(enc_pred(p.operands, leaf_txt))
            return p
        if t == "N":
            x = build(f[1])
            if nclauses_not(x) > LIMIT:
                raise TooBig()
            p = x.logical_not()
            req.append(f"pred not {enc_pred(x.operands, leaf_txt)}")
            impl.append(enc_pred(p.operands, leaf_txt))
            return p
        if t == "P":
            return build(f[1])
        xs = [build(x) for x in f[1:]]
        if t == "|":
            n = 1
            for x in xs:
                n *= max(1, len(x.operands))
            if n > LIMIT:
                raise TooBig()
        p = xs[0].logical_and(*xs[1:]) if t == "&" else xs[0].logical_or(*xs[1:])
        if t == "&":
            # tell the model where `_impl_and`'s object-identity shortcut (`a is b`) applies
            encs = [enc_pred(xs[0].operands, leaf_txt)]
            acc = xs[0].operands
            for x in xs[1:]:
                same = acc is x.operands
                encs.append(("=" if same else "") + enc_pred(x.operands, leaf_txt))
                acc = acc if same else acc + x.operands
            req.append("pred and " + " ".join(encs))
        else:
            req.append("pred or " + " ".join(enc_pred(x.operands, leaf_txt) for x in xs))
        impl.append(enc_pred(p.operands, leaf_txt))
        return p

    small = enum_formulas(3, 2)
    n_rand = 600 if ctx.quick() else 6000
    formulas = [(f, 3) for f in small]
    for _ in range(n_rand):
        na = rng.choice([2, 3, 4])
        formulas.append((rand_formula(rng, na, rng.choice([2, 3, 4]), consts=True, nary=True), na))
    n_checked = 0
    for f, na in formulas:
        size_before = len(req)
        try:
            p = build(f)
        except TooBig:
            del req[size_before:], impl[size_before:]
            ctx.count("new:skipped-too-big")
            continue
        except Exception as e:  # the API must accept every formula
            viol(f"building {f} raised {type(e).__name__}: {e}", f"new-build:{f}", {"kind": "new", "formula": f})
            continue
        ctx.evaluations += 1
        if any(x in repr(f) for x in ("'&'", "'|'")):
            ctx.nontrivial.add(repr(f))
        ctx.count("new:" + f[0])
        penc = enc_pred(p.operands, leaf_txt)
        for asg in itertools.product(K, repeat=na):
            want = ev(f, asg)
            got = p.visit(Eval(asg))
            n_checked += 1
            if got != want:
                viol(f"new-system predicate for {f} evaluates to {got} under {''.join(asg)}, formula says {want}",
                     f"new:{f}:{''.join(asg)}", {"kind": "new", "formula": f, "assignment": "".join(asg), "got": got, "want": want,
                                                 "operands": penc})
                break
        # one model evaluation per formula (full tables are covered by the theorem; this ties eval itself)
        asg = "".join(rng.choice(K) for _ in range(na))
        req.append(f"pred eval {penc} {asg}")
        impl.append(p.visit(Eval(asg)))
    ctx.extra["new_system_truth_table_rows"] = n_checked

    # ------------------------------------------------------------ rewriting visitors (SimplePredicateVisitor)
    from lsst.daf.butler.queries.visitors import SimplePredicateVisitor

    class Rewriter(SimplePredicateVisitor):
        """Replaces chosen atoms by an *equivalent* predicate, as the overlap-rewriting visitors of the query system do."""

        def __init__(self, repl):
            self.repl = repl

        def visit_comparison(self, a, operator, b, flags):
            return self.repl.get(a.value)

    n_rw = 0
    for f, na in formulas[:: 3 if ctx.quick() else 1]:
        size_before = len(req)
        try:
            p = build(f)
        except TooBig:
            del req[size_before:], impl[size_before:]
            continue
        del req[size_before:], impl[size_before:]  # (already compared above)
        atoms_here = sorted({int(l.lstrip("~")) for g in p.operands for l in map(leaf_txt, g)})
        if not atoms_here:
            continue
        chosen = [k for k in atoms_here if rng.random() < 0.5] or [atoms_here[0]]
        repl, spec = {}, []
        general = rng.random() < 0.5  # replacements that are *not* equivalent to the leaf: constants, other atoms, compound predicates
        repl_formula = {}
        for k in chosen:
            kind = rng.choice(["and-self", "or-false", "double-not"])
            if general:
                kind = rng.choice(["const-true", "const-false", "other-atom", "compound-and", "compound-or", "not-other"])
                j, m = rng.randrange(na), rng.randrange(na)
                g_ = {"const-true": ("C", True), "const-false": ("C", False), "other-atom": ("A", j), "compound-and": ("&", ("A", j), ("N", ("A", m))),
                      "compound-or": ("|", ("A", j), ("A", m)), "not-other": ("N", ("A", j))}[kind]
                mark = len(req)
                r_ = build(g_)
                del req[mark:], impl[mark:]
                repl_formula[k] = g_
            elif kind == "and-self":
                r_ = Predicate.model_construct(operands=((atom(k).operands[0][0],), (atom(k).operands[0][0],)))
            elif kind == "or-false":
                r_ = Predicate.model_construct(operands=((atom(k).operands[0][0], atom(k).operands[0][0]),))
            else:
                r_ = atom(k).logical_not().logical_not()
            repl[k] = r_
            spec.append(f"{k}={enc_pred(r_.operands, leaf_txt)}")
        new = p.visit(Rewriter(repl))
        new = p if new is None else new
        req.append(f"pred rewrite {enc_pred(p.operands, leaf_txt)} {'|'.join(spec)}")
        impl.append(enc_pred(new.operands, leaf_txt))
        n_rw += 1
        ctx.evaluations += 1
        if general:
            # substitution semantics, straight from the clauses of the original predicate: a leaf that the visitor replaced takes the
            # value of its replacement; a leaf under NOT is rebuilt from the original (`apply_logical_not`), i.e. keeps its value
            ctx.count("rewriting-visitor:general")
            for asg in itertools.product(K, repeat=na):
                want = "T"
                for g in p.operands:
                    acc = "F"
                    for leaf in g:
                        if leaf.predicate_type == "not":
                            v = not3(asg[leaf.operand.a.value])
                        elif leaf.a.value in repl_formula:
                            v = ev(repl_formula[leaf.a.value], asg)
                        else:
                            v = asg[leaf.a.value]
                        acc = or3(acc, v)
                    want = and3(want, acc)
                got = new.visit(Eval(asg))
                if got != want:
                    viol(f"rewriting visitor replacing atoms {repl_formula} in the predicate {enc_pred(p.operands, leaf_txt)}: value {got} under {''.join(asg)}, "
                         f"substituting the replacements gives {want}", f"rewrite-subst:{f}:{sorted(repl_formula.items())}:{''.join(asg)}",
                         {"kind": "rewrite", "formula": f, "replaced": {str(k): v for k, v in repl_formula.items()}, "assignment": "".join(asg)})
                    break
            continue
        for asg in itertools.product(K, repeat=na):
            want = ev(f, asg)
            got = new.visit(Eval(asg))
            if got != want:
                viol(f"rewriting visitor replacing atoms {chosen} by equivalent predicates in {f}: value {got} under {''.join(asg)}, original {want}",
                     f"rewrite:{f}:{chosen}:{''.join(asg)}", {"kind": "rewrite", "formula": f, "replaced": chosen, "assignment": "".join(asg)})
                break
    ctx.count("rewriting-visitor", n_rw)

    # ------------------------------------------------------------ legacy normaliser
    parser = ParserYacc()

    def node_eval(n, asg):
        if isinstance(n, exprTree.Identifier):
            return asg[int(n.name[1:])]
        if isinstance(n, exprTree.IsIn):
            # `asg` gives the value of the membership test itself; NOT IN is its negation (unknown stays unknown)
            v = asg[int(n.lhs.name[1:])]
            return not3(v) if n.not_in else v
        if isinstance(n, exprTree.BinaryOp) and n.op == "=":
            return asg[int(n.lhs.name[1:])]
        if isinstance(n, exprTree.Parens):
            return node_eval(n.expr, asg)
        if isinstance(n, exprTree.UnaryOp) and n.op == "NOT":
            return not3(node_eval(n.operand, asg))
        if isinstance(n, exprTree.BinaryOp) and n.op in ("AND", "OR"):
            a, b = node_eval(n.lhs, asg), node_eval(n.rhs, asg)
            return and3(a, b) if n.op == "AND" else or3(a, b)
        raise ValueError(f"unexpected node {n!r}")

    def in_form(n, form_outer, depth=0):
        """Independent structural check of the tree returned by toTree(): outer-op chain of inner-op chains of literals."""
        inner = "OR" if form_outer == "AND" else "AND"

        def literal(x):
            if isinstance(x, exprTree.Parens):
                return literal(x.expr)
            if isinstance(x, exprTree.UnaryOp) and x.op == "NOT":
                return literal(x.operand)
            return isinstance(x, (exprTree.Identifier, exprTree.IsIn)) or (isinstance(x, exprTree.BinaryOp) and x.op == "=")

        def inner_chain(x):
            if isinstance(x, exprTree.Parens):
                return inner_chain(x.expr)
            if isinstance(x, exprTree.BinaryOp) and x.op == inner:
                return inner_chain(x.lhs) and inner_chain(x.rhs)
            return literal(x)

        def outer_chain(x):
            if isinstance(x, exprTree.Parens):
                return outer_chain(x.expr) if not (isinstance(x.expr, exprTree.BinaryOp) and x.expr.op == inner) else inner_chain(x)
            if isinstance(x, exprTree.BinaryOp) and x.op == form_outer:
                return outer_chain(x.lhs) and outer_chain(x.rhs)
            return inner_chain(x)

        return outer_chain(n)

    legacy = [(f, 3) for f in enum_formulas(3, 2) if f[0] != "A"]
    if ctx.quick():
        rng.shuffle(legacy)
        legacy = legacy[:500]
    n_rand2 = 300 if ctx.quick() else 4000
    for _ in range(n_rand2):
        na = rng.choice([2, 3, 4])
        f = rand_formula(rng, na, rng.choice([2, 3, 3, 4]))
        if repr(f).count("'&'") + repr(f).count("'|'") > 7:
            continue
        legacy.append((f, na))
    rows2 = 0
    # the same formulas again with the other kinds of opaque atom (IN / NOT IN lists and ranges, comparisons): decided by the
    # truth-table oracle; the model speaks about numbered atoms and is compared on the identifier spelling only
    styled = []
    for f, na in legacy[:: 2 if ctx.quick() else 1]:
        styles = {k: rng.choice(list(ATOM_STYLES)) for k in range(na)}
        if any(v != "ident" for v in styles.values()):
            styled.append((f, na, styles))
    for f, na, styles in [(f, na, None) for f, na in legacy] + styled:
        s = text(f, styles)
        fm = strip_added_parens(f)
        try:
            root = parser.parse(s)
        except Exception as e:
            raise RuntimeError(f"harness produced an unparsable legacy expression {s!r}: {e}")
        ctx.evaluations += 1
        ctx.nontrivial.add("L" + s)
        ctx.count("legacy:" + f[0])
        w = root.visit(TransformationVisitor())
        mark_styled = len(req)
        if styles:
            ctx.count("legacy:styled-atoms")
        req.append("pred wrap " + prefix(fm))
        impl.append(str(w))
        for form, fc in ((NormalForm.CONJUNCTIVE, "C"), (NormalForm.DISJUNCTIVE, "D")):
            try:
                nw = root.visit(TransformationVisitor()).normalize(form)
                e = NormalFormExpression.fromTree(root, form)
                back = e.toTree()
            except Exception as ex:
                viol(f"legacy normalisation of `{s}` to {form.name} raised {type(ex).__name__}: {ex}", f"legacy-raise:{s}:{fc}",
                     {"kind": "legacy", "expr": s, "form": form.name})
                continue
            req.append(f"pred sat {fc} " + prefix(fm))
            impl.append("true" if w.satisfies(form) else "false")
            req.append(f"pred norm {fc} " + prefix(fm))
            impl.append(str(nw))
            req.append(f"pred fromtree {fc} " + prefix(fm))
            impl.append(";".join(",".join(("not(%s)" % str(n.operand)) if isinstance(n, exprTree.UnaryOp) else str(n) for n in g) for g in e._nodes))
            outer = "AND" if form is NormalForm.CONJUNCTIVE else "OR"
            if not in_form(back, outer):
                viol(f"legacy normalisation of `{s}` to {form.name} gives `{back}` which is not in that form", f"legacy-form:{s}:{fc}",
                     {"kind": "legacy", "expr": s, "form": form.name, "result": str(back)})
            # the printed normal form must re-parse to the same truth table as well (what the legacy query code consumes)
            reparsed = parser.parse(str(back))
            for asg in itertools.product(K, repeat=na):
                # the value of atom k as written: a NOT IN atom is the negation of its membership test
                want = ev(f, tuple(not3(v) if styles and styles[k].startswith("not") else v for k, v in enumerate(asg)))
                got = node_eval(back, asg)
                got2 = node_eval(reparsed, asg)
                # and the node lists themselves
                inner3, outer3 = (or3, and3) if outer == "AND" else (and3, or3)
                acc_o = "T" if outer == "AND" else "F"
                for g in e._nodes:
                    acc_i = "F" if outer == "AND" else "T"
                    for n in g:
                        acc_i = inner3(acc_i, node_eval(n, asg))
                    acc_o = outer3(acc_o, acc_i)
                rows2 += 1
                if got != want or got2 != want or acc_o != want:
                    viol(f"legacy {form.name} normal form of `{s}` is `{back}`: value {got}/{got2}/{acc_o} under {''.join(asg)}, original {want}",
                         f"legacy:{s}:{fc}:{''.join(asg)}",
                         {"kind": "legacy", "expr": s, "form": form.name, "assignment": "".join(asg), "result": str(back)})
                    break
        if styles:
            del req[mark_styled:], impl[mark_styled:]
    ctx.extra["legacy_truth_table_rows"] = rows2

    for i in range(0, len(req), max(1, len(req) // 6)):
        ctx.sample({"request": req[i], "implementation": impl[i]})
    if model_ok:
        got = core.driver(req)
        nd = 0
        for line, m, i in zip(req, got, impl):
            if m != i:
                nd += 1
                if nd <= 5:
                    ctx.broken.append(f"correspondence: `{line}` model={m} implementation={i}")
        ctx.extra["correspondence_lines"] = len(req)
        ctx.extra["correspondence_disagreements"] = nd
    else:
        ctx.notes.append("model not built: correspondence skipped, implementation searched with the truth-table oracle only")


def replay(ctx, content):
    print("replay:", content.get("what"))
    run(ctx)
    return core.finish(ctx)
