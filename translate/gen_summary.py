"""Generate Gen/SummaryPy.lean from `registry/_collection_summary.py` (working tree):

* `CollectionSummary.add_data_ids_generator` through the general translator (nested for-loops as folds): the dataset type is added,
  and for every data ID every governor value is added to the set kept for that governor.  `self.dataset_types` is the list `types`,
  `self.governors` the association list `governors` (`Summ.Gov`); a data ID is the list of its (governor, value) pairs;
  `yield data_id` passes the data ID on and changes nothing.
* `CollectionSummary.is_compatible_with` by recognition (exact source text of its statements): the dataset type (its parent, for a
  component) must be in the summary, and for every governor that the summary, the dataset type and the constraint all mention the
  values in the collection must not be disjoint from the values asked for; the messages appended to `rejections` are not modelled.
"""
from __future__ import annotations

import ast
import os
import sys

sys.path.insert(0, os.path.dirname(__file__))
from py2lean import Spec, Untranslatable, translate_file  # noqa: E402

REPO = os.environ.get("VERIF_REPO", "/repo")
PKG = os.path.join(REPO, "python/lsst/daf/butler")


def generate(outdir: str) -> dict:
    path = os.path.join(PKG, "registry/_collection_summary.py")
    spec = Spec(
        "CollectionSummary.add_data_ids_generator", "addDataIds",
        [("types", "List Nat"), ("governors", "Summ.Gov"), ("dataset_type", "Nat"), ("data_ids", "List (List (Nat × Nat))")], "List Nat × Summ.Gov",
        tail_result="(types, governors)",
        subst={"data_id.dimensions.governors": "(Summ.govsOf data_id)"},
        stmt_rewrites={
            "self.dataset_types.add(dataset_type)": ("types", "(Summ.addType types dataset_type)"),
            "self.governors.setdefault(gov, set()).add(cast(str, data_id[gov]))": ("governors", "(Summ.addVal governors gov (Summ.valOf data_id gov))"),
            "yield data_id": ("governors", "governors"),
        },
    )
    txt = translate_file(path, [spec], "Gen.SummaryPy", header="import ButlerModel.Model.Summary")
    # ---- is_compatible_with, recognised
    tree = ast.parse(open(path).read())
    cls = next(n for n in tree.body if isinstance(n, ast.ClassDef) and n.name == "CollectionSummary")
    fn = next((n for n in cls.body if isinstance(n, ast.FunctionDef) and n.name == "is_compatible_with"), None)
    if fn is None:
        raise Untranslatable("CollectionSummary.is_compatible_with not found")
    body = [st for st in fn.body if not (isinstance(st, ast.Expr) and isinstance(st.value, ast.Constant))]
    want = [
        "parent = dataset_type if not dataset_type.isComponent() else dataset_type.makeCompositeDatasetType()",
        "if parent.name not in self.dataset_types.names:\n    if rejections is not None:\n        rejections.append(f'No datasets of type {parent.name} in collection {name!r}.')\n    return False",
        "for gov_name in self.governors.keys() & dataset_type.dimensions.names & dimensions.keys():\n    values_in_collection = self.governors[gov_name]\n"
        "    values_given = dimensions[gov_name]\n    if values_in_collection.isdisjoint(values_given):\n        if rejections is not None:\n"
        "            rejections.append(f'No datasets with {gov_name} in {values_given} in collection {name!r}.')\n        return False",
        "return True",
    ]
    got = [ast.unparse(st) for st in body]
    if got != want:
        bad = next((g for g, w in zip(got, want) if g != w), f"{len(got)} statements")
        raise Untranslatable(f"is_compatible_with: statement reads {bad[:100]!r}")
    add = '''
/-- `CollectionSummary.is_compatible_with` (recognised statement by statement): `parent` is the dataset type, or its composite for a
component; `typeDims` are the names of the dataset type's dimensions; `dims` the constraint (governor ↦ values asked for) -/
def isCompatibleWith (types : List Nat) (governors : Summ.Gov) (parent : Nat) (typeDims : List Nat) (dims : Summ.Gov) : Bool :=
  if !types.contains parent then false
  else ((Summ.keys governors).filter fun g => typeDims.contains g && (Summ.keys dims).contains g).all fun gov_name =>
    !Summ.disjoint (Summ.vals governors gov_name) (Summ.vals dims gov_name)

end Gen.SummaryPy
'''
    txt = txt.replace("end Gen.SummaryPy\n", add.lstrip("\n"))
    open(os.path.join(outdir, "SummaryPy.lean"), "w").write(txt)
    return {}


if __name__ == "__main__":
    out = sys.argv[1] if len(sys.argv) > 1 else "/verif/lean/ButlerModel/ButlerModel/Gen"
    print(generate(out))
