"""py2lean — translate a restricted subset of Python (as found in lsst/daf_butler's
small pure functions) into Lean 4 definitions.

The translator is *syntactic*: it walks the `ast` of the function as it is in the
working tree **now** and emits a Lean term.  Anything outside the accepted subset
raises `Untranslatable`, which the check pipeline reports as "tie broken" (it never
silently falls back to an older model).

Accepted subset
---------------
expressions : list comprehensions over one sequence or over `itertools.product` of two,
              int / bool constants, names, comparison chains, and/or/not, + - * % //,
              unary minus, conditional expressions, tuples, constant subscripts,
              max()/min() over explicit argument lists or a starred list, calls listed
              in `calls`, and anything listed verbatim in `subst` (matched on
              `ast.unparse` text, so the table pins the exact source spelling).
statements  : `for x in xs:` whose body only (re)binds locals (-> `List.foldl` over the loop-carried ones),
              return, if/elif/else, local assignment / augmented assignment,
              `x.extend(f(v) for v in xs)`, `with` (body inlined), `raise E(...)`,
              bare annotations, docstrings, `yield` / `yield from ()` (list mode).
modes       : "bool"  – comparisons become `decide (a < b)`, and/or/not become && || !
              "sql"   – comparisons and `sqlalchemy.sql.and_/or_/not_` become constructors
                        of `Sql.E`, evaluated by the three-valued evaluator in
                        Model/Sql3.lean.
`variants` resolves tests such as `isinstance(other, astropy.time.Time)` or
`_nsec is None` to a constant so that one Python function becomes one Lean definition
per dynamic-type case.
"""
from __future__ import annotations

import ast
import hashlib
import textwrap
from dataclasses import dataclass, field
from typing import Callable


class Untranslatable(Exception):
    pass


CMP_BOOL = {
    ast.Lt: "<", ast.LtE: "≤", ast.Gt: ">", ast.GtE: "≥", ast.Eq: "=", ast.NotEq: "≠",
}
CMP_SQL = {
    ast.Lt: "Sql.E.lt", ast.LtE: "Sql.E.le", ast.Gt: "Sql.E.gt", ast.GtE: "Sql.E.ge",
    ast.Eq: "Sql.E.eq", ast.NotEq: "Sql.E.ne",
}


@dataclass
class Spec:
    """How to translate one Python function into one Lean definition."""

    qualname: str  # "Class.method" or "function"
    lean_name: str
    params: list[tuple[str, str]]  # (lean binder name, lean type) in order
    ret: str
    mode: str = "bool"  # "bool" | "sql"
    kind: str = "value"  # "value" | "except" | "list"
    subst: dict[str, str] = field(default_factory=dict)
    variants: dict[str, bool] = field(default_factory=dict)
    calls: dict[str, Callable[["Tr", ast.Call], str]] = field(default_factory=dict)
    skip_prefixes: tuple[str, ...] = ("warnings.",)
    rename: dict[str, str] = field(default_factory=dict)  # python local -> lean name
    # `if <test>:` whose evaluation itself raises when <lean cond> holds: test text -> (lean cond, exception name)
    raising_tests: dict[str, tuple[str, str]] = field(default_factory=dict)
    tuple_as_list: bool = False  # Python tuples used as immutable sequences become Lean lists
    add_is_append: bool = False  # `a + b` on such sequences is `a ++ b`
    # expression statements that update a local in place, by exact source text: text -> (local name, Lean expression for its new value)
    stmt_rewrites: dict[str, tuple[str, str]] = field(default_factory=dict)
    # translate only from the statement whose source text starts with this (searched through `with` blocks) to the end of its block;
    # what precedes it (argument checks, query construction) is outside the translated part and named in the generator's docstring
    start_at: str = ""
    # the value of the translated part when control reaches the end of the (sliced) body without a `return`: a Lean expression
    # over the locals (for slices of a function that go on to use what they computed)
    tail_result: str = ""
    # `try: <one assignment>  except <E>: raise <X>(...)`: assignment text -> Lean condition under which evaluating it raises <E>;
    # the translation is `if <cond> then Except.error "<X>" else let … := …` (only in `except` mode)
    try_raises: dict[str, str] = field(default_factory=dict)


def apply_stmt_rewrites(fn: ast.FunctionDef, spec: "Spec") -> ast.FunctionDef:
    """Replace the expression statements named in `spec.stmt_rewrites` by assignments to the local they update."""
    if not spec.stmt_rewrites:
        return fn
    counter = [0]

    class R(ast.NodeTransformer):
        def generic_visit(self, node):
            if isinstance(node, ast.stmt):
                t = ast.unparse(node)
                if t in spec.stmt_rewrites:
                    name, lean = spec.stmt_rewrites[t]
                    counter[0] += 1
                    ph = f"__rewritten_{counter[0]}"
                    spec.subst[ph] = lean
                    return ast.copy_location(ast.Assign(targets=[ast.Name(id=name, ctx=ast.Store())], value=ast.Name(id=ph, ctx=ast.Load()), lineno=node.lineno), node)
            return super().generic_visit(node)

    import copy

    return ast.fix_missing_locations(R().visit(copy.deepcopy(fn)))


def slice_from(fn: ast.FunctionDef, start_at: str, qualname: str) -> ast.FunctionDef:
    """The function with its body cut down to the statement starting with `start_at` and what follows it in the same block."""
    if not start_at:
        return fn

    def find(body, through_if=False):
        for i, st in enumerate(body):
            if ast.unparse(st).startswith(start_at):
                return body[i:]
            if isinstance(st, ast.With):
                r = find(st.body, through_if)
                if r is not None:
                    return r
            if through_if and isinstance(st, ast.If):
                r = find(st.body, through_if) or find(st.orelse, through_if)
                if r is not None:
                    return r
            if through_if and isinstance(st, ast.For):
                r = find(st.body, through_if)  # (a slice of a loop body: one iteration, from that statement on)
                if r is not None:
                    return r
        return None

    rest = find(fn.body) or find(fn.body, through_if=True)  # (bodies of `if` statements are searched only when nothing else matched)
    if rest is None:
        raise Untranslatable(f"{qualname}: no statement starting with {start_at!r}")
    import copy

    out = copy.copy(fn)
    out.body = rest
    return out


def find_function(tree: ast.Module, qualname: str) -> ast.FunctionDef:
    parts = qualname.split(".")
    body = tree.body
    node = None
    for i, p in enumerate(parts):
        found = None
        for n in body:
            if isinstance(n, (ast.ClassDef, ast.FunctionDef)) and n.name == p:
                found = n
                break
        if found is None:
            raise Untranslatable(f"{qualname}: no definition named {p!r}")
        node = found
        body = found.body
    if not isinstance(node, ast.FunctionDef):
        raise Untranslatable(f"{qualname}: not a function")
    return node


class Tr:
    def __init__(self, spec: Spec):
        self.s = spec
        self.defined: set[str] = set()  # python locals bound so far on the current path (for loop-carried state)

    # ---------------------------------------------------------------- expressions
    def e(self, n: ast.AST) -> str:
        txt = ast.unparse(n)
        if txt in self.s.subst:
            return self.s.subst[txt]
        m = getattr(self, "e_" + type(n).__name__, None)
        if m is None:
            raise Untranslatable(f"{self.s.qualname}: expression {txt!r} ({type(n).__name__})")
        return m(n)

    def e_Constant(self, n: ast.Constant) -> str:
        if isinstance(n.value, bool):
            return "true" if n.value else "false"
        if isinstance(n.value, int):
            return f"({n.value} : Int)"
        raise Untranslatable(f"{self.s.qualname}: constant {n.value!r}")

    def e_Name(self, n: ast.Name) -> str:
        return self.s.rename.get(n.id, n.id)

    def e_Tuple(self, n: ast.Tuple) -> str:
        if self.s.tuple_as_list:
            return "[" + ", ".join(self.e(x) for x in n.elts) + "]"
        return "(" + ", ".join(self.e(x) for x in n.elts) + ")"

    def e_ListComp(self, n: ast.ListComp) -> str:
        """`[elt for v in xs]` -> map;  `[elt for a, b in itertools.product(xs, ys)]` -> flatMap / map."""
        if len(n.generators) != 1 or n.generators[0].ifs or n.generators[0].is_async:
            raise Untranslatable(f"{self.s.qualname}: comprehension {ast.unparse(n)!r}")
        g = n.generators[0]
        if isinstance(g.target, ast.Name):
            return f"(({self.e(g.iter)}).map (fun {g.target.id} => {self.e(n.elt)}))"
        if (
            isinstance(g.target, ast.Tuple)
            and len(g.target.elts) == 2
            and all(isinstance(t, ast.Name) for t in g.target.elts)
            and isinstance(g.iter, ast.Call)
            and ast.unparse(g.iter.func) == "itertools.product"
            and len(g.iter.args) == 2
            and not g.iter.keywords
        ):
            a, b = (t.id for t in g.target.elts)
            xs, ys = (self.e(x) for x in g.iter.args)
            # itertools.product: the first factor varies slowest
            return f"(({xs}).flatMap (fun {a} => ({ys}).map (fun {b} => {self.e(n.elt)})))"
        raise Untranslatable(f"{self.s.qualname}: comprehension {ast.unparse(n)!r}")

    def e_List(self, n: ast.List) -> str:
        return "[" + ", ".join(self.e(x) for x in n.elts) + "]"

    def e_Subscript(self, n: ast.Subscript) -> str:
        if isinstance(n.slice, ast.Constant) and n.slice.value in (0, 1):
            return f"({self.e(n.value)}).{n.slice.value + 1}"
        if isinstance(n.slice, ast.Slice) and n.slice.lower is None and n.slice.step is None and n.slice.upper is not None:
            # xs[:k] with an integer k (Python clips a k beyond the length; a negative k is not accepted here: the caller's
            # guard must make it positive, see the spec's substitutions)
            return f"(({self.e(n.value)}).take (Int.toNat {self.e(n.slice.upper)}))"
        raise Untranslatable(f"{self.s.qualname}: subscript {ast.unparse(n)!r}")

    def e_UnaryOp(self, n: ast.UnaryOp) -> str:
        if isinstance(n.op, ast.Not):
            if self.s.mode == "sql":
                return f"(Sql.E.not {self.e(n.operand)})"
            return f"(!{self.e(n.operand)})"
        if isinstance(n.op, ast.USub):
            return f"(-{self.e(n.operand)})"
        raise Untranslatable(f"{self.s.qualname}: unary {ast.unparse(n)!r}")

    def e_BinOp(self, n: ast.BinOp) -> str:
        a, b = self.e(n.left), self.e(n.right)
        if self.s.mode == "sql":
            ops = {ast.Add: "Sql.E.add", ast.Sub: "Sql.E.sub", ast.Mult: "Sql.E.mul", ast.Mod: "Sql.E.mod"}
            for k, v in ops.items():
                if isinstance(n.op, k):
                    return f"({v} {a} {b})"
            raise Untranslatable(f"{self.s.qualname}: sql binop {ast.unparse(n)!r}")
        if isinstance(n.op, ast.Add):
            if self.s.add_is_append:
                return f"({a} ++ {b})"
            return f"({a} + {b})"
        if isinstance(n.op, ast.Sub):
            return f"({a} - {b})"
        if isinstance(n.op, ast.Mult):
            return f"({a} * {b})"
        if isinstance(n.op, ast.Mod):
            return f"(Int.fmod {a} {b})"  # Python % is floor-mod
        if isinstance(n.op, ast.FloorDiv):
            return f"(Int.fdiv {a} {b})"
        raise Untranslatable(f"{self.s.qualname}: binop {ast.unparse(n)!r}")

    def e_BoolOp(self, n: ast.BoolOp) -> str:
        parts = [self.e(v) for v in n.values]
        if self.s.mode == "sql":
            raise Untranslatable(f"{self.s.qualname}: python and/or in sql mode {ast.unparse(n)!r}")
        op = " && " if isinstance(n.op, ast.And) else " || "
        return "(" + op.join(parts) + ")"

    def e_Compare(self, n: ast.Compare) -> str:
        lefts = [n.left] + list(n.comparators[:-1])
        outs = []
        for l, op, r in zip(lefts, n.ops, n.comparators):
            pair_txt = ast.unparse(ast.Compare(left=l, ops=[op], comparators=[r]))
            if pair_txt in self.s.subst:
                outs.append(self.s.subst[pair_txt])
                continue
            if self.s.mode == "sql":
                c = CMP_SQL.get(type(op))
                if c is None:
                    raise Untranslatable(f"{self.s.qualname}: sql compare {pair_txt!r}")
                outs.append(f"({c} {self.e(l)} {self.e(r)})")
            else:
                c = CMP_BOOL.get(type(op))
                if c is None:
                    raise Untranslatable(f"{self.s.qualname}: compare {pair_txt!r}")
                outs.append(f"decide ({self.e(l)} {c} {self.e(r)})")
        if len(outs) == 1:
            return outs[0] if self.s.mode == "sql" else "(" + outs[0] + ")"
        if self.s.mode == "sql":
            raise Untranslatable(f"{self.s.qualname}: chained sql compare")
        return "(" + " && ".join(outs) + ")"

    def e_IfExp(self, n: ast.IfExp) -> str:
        t = ast.unparse(n.test)
        if t in self.s.variants:
            return self.e(n.body if self.s.variants[t] else n.orelse)
        return f"(if {self.e(n.test)} then {self.e(n.body)} else {self.e(n.orelse)})"

    def e_Call(self, n: ast.Call) -> str:
        f = ast.unparse(n.func)
        if f in self.s.calls:
            return self.s.calls[f](self, n)
        if f in ("max", "min"):
            fn = "Py.maxL" if f == "max" else "Py.minL"
            if len(n.args) == 1 and isinstance(n.args[0], ast.Starred):
                return f"({fn} {self.e(n.args[0].value)})"
            if len(n.args) >= 2 and not any(isinstance(a, ast.Starred) for a in n.args):
                return f"({fn} [" + ", ".join(self.e(a) for a in n.args) + "])"
        if self.s.mode == "sql":
            if f in ("sqlalchemy.sql.and_", "sqlalchemy.and_"):
                return self._nest("Sql.E.and", [self.e(a) for a in n.args])
            if f in ("sqlalchemy.sql.or_", "sqlalchemy.or_"):
                return self._nest("Sql.E.or", [self.e(a) for a in n.args])
            if f in ("sqlalchemy.sql.not_", "sqlalchemy.not_"):
                return f"(Sql.E.not {self.e(n.args[0])})"
            if f in ("sqlalchemy.sql.literal", "sqlalchemy.literal") and len(n.args) == 1:
                return f"(Sql.E.lit {self.e(n.args[0])})"
            if f in ("sqlalchemy.sql.functions.coalesce", "sqlalchemy.func.coalesce") and len(n.args) == 2:
                return f"(Sql.E.coalesce {self.e(n.args[0])} {self.e(n.args[1])})"
            if f in ("sqlalchemy.sql.null", "sqlalchemy.null") and not n.args:
                return "Sql.E.null"
            if isinstance(n.func, ast.Attribute) and n.func.attr == "is_" and len(n.args) == 1:
                if isinstance(n.args[0], ast.Constant) and n.args[0].value is None:
                    return f"(Sql.E.isNull {self.e(n.func.value)})"
            if isinstance(n.func, ast.Attribute) and n.func.attr == "between" and len(n.args) == 2:
                return f"(Sql.E.between {self.e(n.func.value)} {self.e(n.args[0])} {self.e(n.args[1])})"
        raise Untranslatable(f"{self.s.qualname}: call {ast.unparse(n)!r}")

    def _nest(self, ctor: str, parts: list[str]) -> str:
        if not parts:
            raise Untranslatable(f"{self.s.qualname}: empty {ctor}")
        acc = parts[-1]
        for p in reversed(parts[:-1]):
            acc = f"({ctor} {p} {acc})"
        return acc

    # ---------------------------------------------------------------- statements
    def ret_wrap(self, term: str) -> str:
        if self.s.kind == "except":
            return f"(Except.ok {term})"
        return term

    def skippable(self, st: ast.stmt) -> bool:
        if isinstance(st, ast.Expr):
            if isinstance(st.value, ast.Constant) and isinstance(st.value.value, str):
                return True
            t = ast.unparse(st.value)
            return any(t.startswith(p) for p in self.s.skip_prefixes)
        if isinstance(st, ast.AnnAssign) and st.value is None:
            return True
        if isinstance(st, (ast.Pass, ast.Assert)):
            return True
        if isinstance(st, ast.If):
            return all(self.skippable(x) for x in st.body) and all(self.skippable(x) for x in st.orelse)
        return False

    @staticmethod
    def assigned_names(stmts: list[ast.stmt]) -> list[str]:
        """Names bound by plain / annotated / augmented assignments anywhere in `stmts`, in first-seen order."""
        out: list[str] = []
        for st in stmts:
            for n in ast.walk(st):
                t = None
                if isinstance(n, ast.Assign) and len(n.targets) == 1 and isinstance(n.targets[0], ast.Name):
                    t = n.targets[0].id
                elif isinstance(n, (ast.AnnAssign, ast.AugAssign)) and isinstance(n.target, ast.Name):
                    if not (isinstance(n, ast.AnnAssign) and n.value is None):
                        t = n.target.id
                if t is not None and t not in out:
                    out.append(t)
        return out

    def for_loop(self, st: ast.For, rest: list[ast.stmt], depth: int, tail: str | None) -> str:
        """`for x in xs: <assignments>` -> `List.foldl` over the loop-carried variables (those assigned in the
        body that were already bound before the loop); names first bound inside the body are local to one
        iteration.  `break` / `continue` / `else:` / `return` inside the loop are not accepted."""
        ind = "  " * depth
        tuple_target = isinstance(st.target, ast.Tuple) and all(isinstance(x, ast.Name) for x in st.target.elts)
        if st.orelse or not (isinstance(st.target, ast.Name) or tuple_target):
            raise Untranslatable(f"{self.s.qualname}: for-loop shape {ast.unparse(st).splitlines()[0]!r}")
        for n in ast.walk(st):
            if isinstance(n, (ast.Break, ast.Continue, ast.Return, ast.Yield, ast.YieldFrom, ast.While)):
                raise Untranslatable(f"{self.s.qualname}: {type(n).__name__} inside a for-loop")
        carried = [v for v in self.assigned_names(list(st.body)) if v in self.defined]
        if not carried:
            raise Untranslatable(f"{self.s.qualname}: for-loop without loop-carried variable")
        names = [self.s.rename.get(v, v) for v in carried]
        state = names[0] if len(names) == 1 else "(" + ", ".join(names) + ")"
        saved = set(self.defined)
        targets = [x.id for x in st.target.elts] if tuple_target else [st.target.id]
        self.defined.update(targets)
        body = self.block(list(st.body), depth + 2, tail=state)
        self.defined = saved
        var = ", ".join(self.s.rename.get(t, t) for t in targets)
        if tuple_target:
            var = "(" + var + ")"
        return (
            f"let {state} := ({self.e(st.iter)}).foldl (fun {state} {var} =>\n{ind}    {body}) {state}\n"
            f"{ind}{self.block(rest, depth, tail=tail)}"
        )

    def block(self, stmts: list[ast.stmt], depth: int = 1, tail: str | None = None) -> str:
        ind = "  " * depth
        stmts = [s for s in stmts if not self.skippable(s)]
        if not stmts:
            if tail is not None:
                return tail
            if self.s.kind == "list":
                return "[]"
            raise Untranslatable(f"{self.s.qualname}: control reaches end of function without return")
        st, rest = stmts[0], stmts[1:]
        if isinstance(st, ast.For):
            return self.for_loop(st, rest, depth, tail)
        if isinstance(st, ast.Return):
            if st.value is None:
                raise Untranslatable(f"{self.s.qualname}: bare return")
            if self.s.kind == "list":
                raise Untranslatable(f"{self.s.qualname}: return in generator")
            return self.ret_wrap(self.e(st.value))
        if isinstance(st, ast.Raise):
            if self.s.kind != "except":
                raise Untranslatable(f"{self.s.qualname}: raise in non-except function")
            exc = st.exc
            name = ast.unparse(exc.func) if isinstance(exc, ast.Call) else ast.unparse(exc)
            return f'(Except.error "{name}")'
        if isinstance(st, ast.With):
            return self.block(list(st.body) + rest, depth, tail=tail)
        if isinstance(st, ast.Try):
            ok_shape = (len(st.body) == 1 and isinstance(st.body[0], ast.Assign) and len(st.handlers) == 1 and not st.orelse and not st.finalbody
                        and len(st.handlers[0].body) == 1 and isinstance(st.handlers[0].body[0], ast.Raise) and st.handlers[0].body[0].exc is not None)
            key = ast.unparse(st.body[0]) if ok_shape else ""
            if not ok_shape or key not in self.s.try_raises or self.s.kind != "except":
                raise Untranslatable(f"{self.s.qualname}: try statement {ast.unparse(st).splitlines()[1].strip()!r}")
            exc = st.handlers[0].body[0].exc
            name = ast.unparse(exc.func) if isinstance(exc, ast.Call) else ast.unparse(exc)
            return (f'(if {self.s.try_raises[key]} then (Except.error "{name}") else\n{ind}'
                    f"{self.block([st.body[0]] + rest, depth, tail=tail)})")
        if isinstance(st, ast.If):
            t = ast.unparse(st.test)
            if t in self.s.variants:
                chosen = st.body if self.s.variants[t] else st.orelse
                return self.block(list(chosen) + rest, depth, tail=tail)
            if self.s.kind == "list":
                a = self.block(list(st.body), depth + 1)
                b = self.block(list(st.orelse), depth + 1)
                r = self.block(rest, depth)
                return f"((if {self.e(st.test)} then\n{ind}  {a}\n{ind}else\n{ind}  {b}) ++\n{ind}{r})"
            saved = set(self.defined)
            a = self.block(list(st.body) + rest, depth + 1, tail=tail)
            self.defined = set(saved)
            b = self.block(list(st.orelse) + rest, depth + 1, tail=tail)
            self.defined = saved
            core = f"(if {self.e(st.test)} then\n{ind}  {a}\n{ind}else\n{ind}  {b})"
            if t in self.s.raising_tests:
                cond, exc = self.s.raising_tests[t]
                if self.s.kind != "except":
                    raise Untranslatable(f"{self.s.qualname}: raising test in non-except function")
                return f'(if {cond} then (Except.error "{exc}") else\n{ind}{core})'
            return core
        if isinstance(st, ast.Assign) and len(st.targets) == 1 and isinstance(st.targets[0], ast.Name):
            nm = self.e_Name(st.targets[0])
            val = self.e(st.value)
            self.defined.add(st.targets[0].id)
            return f"let {nm} := {val}\n{ind}{self.block(rest, depth, tail=tail)}"
        if isinstance(st, ast.AnnAssign) and isinstance(st.target, ast.Name) and st.value is not None:
            nm = self.e_Name(st.target)
            val = self.e(st.value)
            self.defined.add(st.target.id)
            return f"let {nm} := {val}\n{ind}{self.block(rest, depth, tail=tail)}"
        if isinstance(st, ast.AugAssign) and isinstance(st.target, ast.Name):
            nm = self.e_Name(st.target)
            fake = ast.BinOp(left=ast.Name(id=st.target.id), op=st.op, right=st.value)
            return f"let {nm} := {self.e(fake)}\n{ind}{self.block(rest, depth, tail=tail)}"
        if isinstance(st, ast.Expr):
            v = st.value
            if isinstance(v, ast.Yield) and self.s.kind == "list":
                return f"({self.e(v.value)} :: {self.block(rest, depth)})"
            if isinstance(v, ast.YieldFrom) and self.s.kind == "list":
                if isinstance(v.value, ast.Tuple) and not v.value.elts:
                    return self.block(rest, depth)
            # xs.extend(f(v) for v in ys)
            if (
                isinstance(v, ast.Call)
                and isinstance(v.func, ast.Attribute)
                and v.func.attr == "extend"
                and isinstance(v.func.value, ast.Name)
                and len(v.args) == 1
                and isinstance(v.args[0], ast.GeneratorExp)
            ):
                g = v.args[0]
                if len(g.generators) == 1 and not g.generators[0].ifs and isinstance(g.generators[0].target, ast.Name):
                    gen = g.generators[0]
                    var = gen.target.id
                    xs = self.e_Name(v.func.value)
                    body = self.e(g.elt)
                    return (
                        f"let {xs} := {xs} ++ ({self.e(gen.iter)}).map (fun {var} => {body})\n"
                        f"{ind}{self.block(rest, depth)}"
                    )
        raise Untranslatable(f"{self.s.qualname}: statement {ast.unparse(st).splitlines()[0]!r}")

    def function(self, fn: ast.FunctionDef) -> str:
        binders = " ".join(f"({n} : {t})" for n, t in self.s.params)
        self.defined = {a.arg for a in fn.args.args} | ({fn.args.vararg.arg} if fn.args.vararg else set())
        self.defined |= {n for n, _ in self.s.params}  # (the Lean binders are bound too: locals of the untranslated part of a sliced function)
        body = self.block(list(fn.body), tail=(self.s.tail_result or None))
        return f"def {self.s.lean_name} {binders} : {self.s.ret} :=\n  {body}\n"


class GenLoopTr(Tr):
    """Generator functions whose body is: guard statements (`if c: yield from rows; return`, `if c: return`), assignments the
    spec declares irrelevant (`skip_assign`), and ONE `for row in rows:` loop whose body uses `continue`, `yield row`,
    `return`, `raise` (under a test the spec resolves) and updates of ONE mutable attribute (`state_attr`, e.g. `self._limit`).

    The function becomes `(rows, state) -> (yielded rows, new state)`; the loop a fold over
    `(out, state, stopped)` — once `stopped` is set (a `return` inside the loop) the remaining rows pass through untouched.
    """

    def __init__(self, spec: Spec, state_attr: str, state_name: str, rows_name: str, skip_assign: tuple[str, ...] = ()):
        super().__init__(spec)
        self.state_attr, self.state, self.rows, self.skip_assign = state_attr, state_name, rows_name, skip_assign

    def _is_state(self, n: ast.AST) -> bool:
        return ast.unparse(n) == self.state_attr

    # ---- statements outside the loop
    def outer(self, stmts: list[ast.stmt], depth: int) -> str:
        ind = "  " * depth
        stmts = [s for s in stmts if not self.skippable(s)]
        if not stmts:
            return f"([], {self.state})"
        st, rest = stmts[0], stmts[1:]
        if isinstance(st, ast.Assign) and len(st.targets) == 1 and ast.unparse(st.targets[0]) in self.skip_assign:
            return self.outer(rest, depth)
        if isinstance(st, ast.If) and not st.orelse:
            body = [b for b in st.body if not self.skippable(b)]
            texts = [ast.unparse(b) for b in body]
            t = ast.unparse(st.test)
            if t in self.s.variants:
                return self.outer((list(st.body) if self.s.variants[t] else []) + rest, depth)
            if texts == [f"yield from {self.rows}", "return"]:
                return f"(if {self.e(st.test)} then\n{ind}  ({self.rows}, {self.state})\n{ind}else\n{ind}  {self.outer(rest, depth + 1)})"
            if texts == ["return"]:
                return f"(if {self.e(st.test)} then\n{ind}  ([], {self.state})\n{ind}else\n{ind}  {self.outer(rest, depth + 1)})"
        if isinstance(st, ast.For) and isinstance(st.target, ast.Name) and ast.unparse(st.iter) == self.rows and not st.orelse and not rest:
            v = st.target.id
            body = self.inner(list(st.body), depth + 2, v)
            return (f"let r := ({self.rows}).foldl (fun (acc : List _ × _ × Bool) {v} =>\n{ind}    let (out, {self.state}, stopped) := acc\n"
                    f"{ind}    if stopped then (out, {self.state}, stopped) else\n{ind}    {body}) ([], {self.state}, false)\n{ind}(r.1, r.2.1)")
        raise Untranslatable(f"{self.s.qualname}: statement {ast.unparse(st).splitlines()[0]!r} outside the loop")

    # ---- statements inside the loop; the value is the next (out, state, stopped)
    def inner(self, stmts: list[ast.stmt], depth: int, v: str) -> str:
        ind = "  " * depth
        cont = f"(out, {self.state}, false)"
        stmts = [s for s in stmts if not self.skippable(s)]
        if not stmts:
            return cont
        st, rest = stmts[0], stmts[1:]
        if isinstance(st, ast.Continue):
            return cont
        if isinstance(st, ast.Return) and st.value is None:
            return f"(out, {self.state}, true)"
        if isinstance(st, ast.Assign) and len(st.targets) == 1 and ast.unparse(st.targets[0]) in self.skip_assign:
            return self.inner(rest, depth, v)
        if isinstance(st, ast.Expr) and isinstance(st.value, ast.Yield) and ast.unparse(st.value.value) == v:
            return f"let out := out ++ [{v}]\n{ind}{self.inner(rest, depth, v)}"
        if isinstance(st, ast.AugAssign) and self._is_state(st.target) and isinstance(st.op, ast.Sub) and ast.unparse(st.value) == "1":
            return f"let {self.state} := {self.state}.map (· - 1)\n{ind}{self.inner(rest, depth, v)}"
        if isinstance(st, ast.If):
            t = ast.unparse(st.test)
            if t in self.s.variants:
                return self.inner((list(st.body) if self.s.variants[t] else list(st.orelse)) + rest, depth, v)
            a = self.inner(list(st.body) + rest, depth + 1, v)
            b = self.inner(list(st.orelse) + rest, depth + 1, v)
            return f"(if {self.e(st.test)} then\n{ind}  {a}\n{ind}else\n{ind}  {b})"
        raise Untranslatable(f"{self.s.qualname}: statement {ast.unparse(st).splitlines()[0]!r} inside the loop")

    def function(self, fn: ast.FunctionDef) -> str:
        binders = " ".join(f"({n} : {t})" for n, t in self.s.params)
        body = self.outer(list(fn.body), 1)
        return f"def {self.s.lean_name} {binders} : {self.s.ret} :=\n  {body}\n"


class StateTr(Tr):
    """Methods that work by side effects on a few pieces of object state (e.g. a cache registry and the files on disk).

    The state is a tuple of Lean variables (`state`, e.g. `("disk", "r")`); the method becomes `state -> state`.
    `effects` maps the source text of a *call statement* (callee, e.g. `self._remove_from_cache`) to a Lean function that
    takes the state variables followed by the translated arguments and returns the new state tuple.  Accepted statements:
    effect calls, local assignments, `if`/`else` (tests resolved by `variants` pick one branch), bare `return`, and
    `for x in xs:` loops whose body consists of the same plus `break` (the loop becomes a fold over the state and a
    `stopped` flag; `return` inside a loop is not accepted).
    """

    def __init__(self, spec: Spec, state: tuple[str, ...], effects: dict[str, str], state_types: tuple[str, ...] = ()):
        super().__init__(spec)
        self.state, self.effects, self.state_types = state, effects, state_types

    @property
    def acc_type(self) -> str:
        return " × ".join(list(self.state_types) + ["Bool"]) if self.state_types else "_"

    @property
    def st(self) -> str:
        return "(" + ", ".join(self.state) + ")"

    def effect(self, st: ast.stmt) -> str | None:
        if isinstance(st, ast.Expr) and isinstance(st.value, ast.Call):
            f = ast.unparse(st.value.func)
            if f in self.effects and not st.value.keywords:
                args = " ".join(self.e(a) for a in st.value.args)
                return f"let {self.st} := {self.effects[f]} {' '.join(self.state)} {args}".rstrip()
        return None

    def fin(self) -> str:
        """the value of a finished method: the state (wrapped in `Except.ok` for methods that can raise)"""
        return f"(Except.ok {self.st})" if self.s.kind == "except" else self.st

    def stm(self, stmts: list[ast.stmt], depth: int, in_loop: bool) -> str:
        ind = "  " * depth
        done = f"({', '.join(self.state)}, false)" if in_loop else self.fin()
        stmts = [s for s in stmts if not self.skippable(s)]
        if not stmts:
            return done
        st, rest = stmts[0], stmts[1:]
        eff = self.effect(st)
        if eff is not None:
            return f"{eff}\n{ind}{self.stm(rest, depth, in_loop)}"
        if isinstance(st, ast.Return) and st.value is None:
            if in_loop:
                raise Untranslatable(f"{self.s.qualname}: return inside a loop")
            return self.fin()
        if isinstance(st, ast.With):
            return self.stm(list(st.body) + rest, depth, in_loop)
        if isinstance(st, ast.Break):
            if not in_loop:
                raise Untranslatable(f"{self.s.qualname}: break outside a loop")
            return f"({', '.join(self.state)}, true)"
        if isinstance(st, ast.Assign) and len(st.targets) == 1 and isinstance(st.targets[0], ast.Name):
            val = self.e(st.value)
            self.defined.add(st.targets[0].id)
            return f"let {self.e_Name(st.targets[0])} := {val}\n{ind}{self.stm(rest, depth, in_loop)}"
        if isinstance(st, ast.AnnAssign) and isinstance(st.target, ast.Name) and st.value is not None:
            val = self.e(st.value)
            self.defined.add(st.target.id)
            return f"let {self.e_Name(st.target)} := {val}\n{ind}{self.stm(rest, depth, in_loop)}"
        if isinstance(st, ast.For) and isinstance(st.target, ast.Name) and not st.orelse and not in_loop and self._local_only(st):
            # a loop that only updates locals (no effect on the object state, no break): a fold over the loop-carried locals
            carried = [v for v in self.assigned_names(list(st.body)) if v in self.defined]
            if not carried:
                raise Untranslatable(f"{self.s.qualname}: for-loop without loop-carried variable")
            names = [self.s.rename.get(v, v) for v in carried]
            state = names[0] if len(names) == 1 else "(" + ", ".join(names) + ")"
            saved = set(self.defined)
            self.defined.add(st.target.id)
            body = self.block(list(st.body), depth + 2, tail=state)
            self.defined = saved
            return (f"let {state} := ({self.e(st.iter)}).foldl (fun {state} {st.target.id} =>\n{ind}    {body}) {state}\n"
                    f"{ind}{self.stm(rest, depth, in_loop)}")
        if isinstance(st, ast.Raise):
            t = ast.unparse(st)
            if t in self.s.subst:
                return self.s.subst[t]
            if self.s.kind == "except" and not in_loop:
                exc = st.exc
                name = ast.unparse(exc.func) if isinstance(exc, ast.Call) else ast.unparse(exc)
                return f'(Except.error "{name}")'
        if isinstance(st, ast.If):
            t = ast.unparse(st.test)
            if t in self.s.variants:
                return self.stm((list(st.body) if self.s.variants[t] else list(st.orelse)) + rest, depth, in_loop)
            a = self.stm(list(st.body) + rest, depth + 1, in_loop)
            b = self.stm(list(st.orelse) + rest, depth + 1, in_loop)
            return f"(if {self.e(st.test)} then\n{ind}  {a}\n{ind}else\n{ind}  {b})"
        if isinstance(st, ast.For) and isinstance(st.target, ast.Name) and not st.orelse and not in_loop:
            v = st.target.id
            body = self.stm(list(st.body), depth + 2, True)
            sv = ", ".join(self.state)
            return (f"let {self.st} := (fun (x : {self.acc_type}) => {self._proj(len(self.state))}) (({self.e(st.iter)}).foldl (fun (acc : {self.acc_type}) {v} =>\n"
                    f"{ind}    let ({sv}, stopped) := acc\n{ind}    if stopped then ({sv}, stopped) else\n{ind}    {body}) ({sv}, false))\n"
                    f"{ind}{self.stm(rest, depth, in_loop)}")
        raise Untranslatable(f"{self.s.qualname}: statement {ast.unparse(st).splitlines()[0]!r}")

    def _local_only(self, loop: ast.For) -> bool:
        for n in ast.walk(loop):
            if isinstance(n, (ast.Break, ast.Continue, ast.Return)):
                return False
            if isinstance(n, ast.Expr) and isinstance(n.value, ast.Call) and ast.unparse(n.value.func) in self.effects:
                return False
        return True

    @staticmethod
    def _proj(n: int) -> str:
        # ((a, b, ..., stopped) : nested pairs) -> (a, b, ...)
        parts, cur = [], "x"
        for _ in range(n):
            parts.append(f"{cur}.1")
            cur = f"{cur}.2"
        return "(" + ", ".join(parts) + ")"

    def function(self, fn: ast.FunctionDef) -> str:
        binders = " ".join(f"({n} : {t})" for n, t in self.s.params)
        body = self.stm(list(fn.body), 1, False)
        return f"def {self.s.lean_name} {binders} : {self.s.ret} :=\n  {body}\n"


def translate_file(src_path: str, specs: list[Spec], namespace: str, header: str = "", opens: str = "", tr_cls=None) -> str:
    src = open(src_path).read()
    tree = ast.parse(src)
    sha = hashlib.sha256(src.encode()).hexdigest()[:16]
    out = [
        "-- GENERATED by translate/py2lean.py — do not edit; regenerated on every check run.",
        f"-- source: {src_path}  sha256[:16]={sha}",
        header,
        f"namespace {namespace}",
        opens,
        "",
    ]
    for sp in specs:
        fn = apply_stmt_rewrites(slice_from(find_function(tree, sp.qualname), sp.start_at, sp.qualname), sp)
        out.append(f"-- {sp.qualname}  (lines {fn.lineno}-{fn.end_lineno})  variants={sp.variants}")
        out.append((tr_cls(sp) if tr_cls else Tr(sp)).function(fn))
    out.append(f"end {namespace}")
    return "\n".join(out) + "\n"
