"""Generate Gen/DecertifyPy.lean: the Python half of `ByDimensionsDatasetRecordStorageManagerUUID.decertify`
(`registry/datasets/byDimensions/_manager.py`) translated from the working tree, from `rows_to_delete = []` on:
the loop over the rows the overlap query returned, which collects the primary keys to delete and, per row, what
`Timespan.difference` leaves of its validity range, and the DELETE / INSERT that follow.

Not translated (named here, decided by the correspondence of C04): the argument checks and the construction of the overlap
query — the rows it returns are the parameter `rows`; a row of the calibs table is `(id, Calib.Row)` (primary key; data ID,
dataset, validity range); the columns copied into a new row one by one are its data ID and dataset.
"""
from __future__ import annotations

import ast
import os
import sys

sys.path.insert(0, os.path.dirname(__file__))
from py2lean import Spec, StateTr, Tr, translate_file  # noqa: E402

REPO = os.environ.get("VERIF_REPO", "/repo")
PKG = os.path.join(REPO, "python/lsst/daf/butler")


def call_difference(tr: Tr, n: ast.Call) -> str:
    return f"(Gen.TsPy.difference row_timespan {tr.e(n.args[0])})"


def generate(outdir: str) -> dict:
    T = "List (Nat × Calib.Row)"
    spec = Spec(
        "ByDimensionsDatasetRecordStorageManagerUUID.decertify", "decertifyPy",
        [("timespan", "TS"), ("rows", T), ("s", T)], T,
        start_at="rows_to_delete = []",
        subst={
            "self._get_calibs_table(storage.dynamic_tables)": "()",
            "context.fetch_iterable(relation)": "rows",
            "proto_insert_row.copy()": "((0 : Nat), (0 : Nat))",
            "row[timespan_tag]": "row.2.ts",
        },
        calls={"row_timespan.difference": call_difference},
        stmt_rewrites={
            "rows_to_delete.append({'id': row[calib_pkey_tag]})": ("rows_to_delete", "(rows_to_delete ++ [row.1])"),
            "new_insert_row['dataset_id'] = row[dataset_id_tag]": ("new_insert_row", "(new_insert_row.1, row.2.ds)"),
            "for name, tag in data_id_tags:\n    new_insert_row[name] = row[tag]": ("new_insert_row", "(row.2.key, new_insert_row.2)"),
            "rows_to_insert.append(TimespanReprClass.update(diff_timespan, result=new_insert_row.copy()))":
                ("rows_to_insert", "(rows_to_insert ++ [((0 : Nat), (⟨new_insert_row.1, new_insert_row.2, diff_timespan⟩ : Calib.Row))])"),
            "self._db.delete(calibs_table, ['id'], *rows_to_delete)": ("s", "(s.filter fun r => !rows_to_delete.contains r.1)"),
            "self._db.insert(calibs_table, *rows_to_insert)": ("s", "(s ++ rows_to_insert)"),
        },
    )
    cert = Spec(
        "ByDimensionsDatasetRecordStorageManagerUUID.certify", "certifyPy",
        [("timespan", "TS"), ("datasets", "List (Nat × Nat)"), ("conflicting_rows", "List (Nat × Calib.Row) → List Calib.Row → Nat"), ("s", T)],
        f"Except String ({T})", kind="except",
        start_at="rows = []",
        variants={"data_ids is not None": True, "TimespanReprClass.hasExclusionConstraint()": False},
        subst={
            "set() if not TimespanReprClass.hasExclusionConstraint() else None": "([] : List Nat)",
            "CollectionSummary()": "()",
            "summary.add_datasets_generator(datasets)": "datasets",
            "dict(proto_row, dataset_id=dataset.id, **dataset.dataId.required)": "(⟨dataset.1, dataset.2, timespan⟩ : Calib.Row)",
            "not rows": "rows.isEmpty",
            "data_ids is not None and len(data_ids) != len(rows) and (not timespan.isEmpty())":
                "(decide (data_ids.length ≠ rows.length) && !(Gen.TsPy.isEmpty timespan))",
            "self._get_calibs_table(storage.dynamic_tables)": "()",
            "self._build_calib_overlap_query(dataset_type, collection, data_ids, timespan, context)": "()",
            # the SELECT COUNT of rows overlapping the timespan for the call's data IDs: the SQL half, a parameter here
            "context.count(context.process(relation))": "((conflicting_rows s rows : Nat) : Int)",
        },
        stmt_rewrites={
            "TimespanReprClass.update(timespan, result=row)": ("row", "row"),
            "rows.append(row)": ("rows", "(rows ++ [row])"),
            "data_ids.add(dataset.dataId)": ("data_ids", "(Py.setAdd data_ids dataset.1)"),
            "self._summaries.update(collection, [storage.dataset_type_id], summary)": ("summary", "summary"),
            "self._db.insert(calibs_table, *rows)": ("s", "(s ++ rows.map fun r => ((0 : Nat), r))"),
        },
    )
    txt = translate_file(
        os.path.join(PKG, "registry/datasets/byDimensions/_manager.py"), [spec, cert], "Gen.DecertifyPy",
        header="import ButlerModel.Model.Calib\nimport ButlerModel.Model.Py",
        tr_cls=lambda sp: StateTr(sp, state=("s",), effects={}),
    )
    open(os.path.join(outdir, "DecertifyPy.lean"), "w").write(txt)
    return {}


if __name__ == "__main__":
    out = sys.argv[1] if len(sys.argv) > 1 else "/verif/lean/ButlerModel/ButlerModel/Gen"
    print(generate(out))
