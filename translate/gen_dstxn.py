"""Generate Gen/DsTxnPy.lean: the datastore's undo-log transactions (`datastore/_datastore.py`) translated from the working tree —
`DatastoreTransaction.registerUndo`, `.rollback`, `.commit` and the context manager `Datastore.transaction`.

The chain of `DatastoreTransaction` objects reached from `Datastore._transaction` through `.parent` is a stack of logs
`Tx = List (List Nat)` (innermost first; a log lists its events oldest first, as the Python list does); an event is the number of
the thing its undo function removes.  The state threaded through `Datastore.transaction` is `(stack, undone)`, `undone` being the
events whose undo function has run, in the order in which they ran.

Shapes understood (anything else raises `Untranslatable`):
* `registerUndo`: one statement `self._log.append(…Event(…))` (→ `log ++ [ev]`) or `self._log.insert(0, …)` (→ `ev :: log`);
* `rollback`: `while self._log: ev = self._log.pop([0])`, then `try` blocks that only log, and one
  `try: ev.undoFunc(*ev.args, **ev.kwargs)  except BaseException/Exception: <only logging / pass>` — every undo function runs, a
  failing one is logged and skipped; the order is the log reversed for `pop()` and the log itself for `pop(0)`;
* `commit`: `if self.parent is None: return` / `else: self.parent._log.extend(self._log)` (→ `parent ++ log`);
* `Datastore.transaction`: `transaction = DatastoreTransaction(self._transaction)`, `self._transaction = transaction`, then one
  `try` around `yield transaction` whose handler, `else` and `finally` blocks consist of `transaction.rollback()`,
  `transaction.commit()`, `self._transaction = transaction.parent`, `raise`.
"""
from __future__ import annotations

import ast
import os
import sys

sys.path.insert(0, os.path.dirname(__file__))
from py2lean import Untranslatable  # noqa: E402

REPO = os.environ.get("VERIF_REPO", "/repo")
PKG = os.path.join(REPO, "python/lsst/daf/butler")


def strip_doc(body):
    return [st for st in body if not (isinstance(st, ast.Expr) and isinstance(st.value, ast.Constant) and isinstance(st.value.value, str))]


def only_logging(stmts):
    for st in stmts:
        if isinstance(st, ast.Pass):
            continue
        if isinstance(st, ast.Expr) and isinstance(st.value, ast.Call) and ast.unparse(st.value.func).startswith(("log.", "_LOG.", "logging.")):
            continue
        return False
    return True


def method(cls, name):
    fn = next((n for n in cls.body if isinstance(n, ast.FunctionDef) and n.name == name), None)
    if fn is None:
        raise Untranslatable(f"{cls.name}.{name} not found")
    return fn


def tr_register(fn):
    body = strip_doc(fn.body)
    if len(body) == 1 and isinstance(body[0], ast.Expr) and isinstance(body[0].value, ast.Call):
        c = body[0].value
        f = ast.unparse(c.func)
        if f == "self._log.append" and len(c.args) == 1 and "Event(" in ast.unparse(c.args[0]):
            return "log ++ [ev]"
        if f == "self._log.insert" and len(c.args) == 2 and ast.unparse(c.args[0]) == "0" and "Event(" in ast.unparse(c.args[1]):
            return "ev :: log"
    raise Untranslatable("registerUndo: `self._log.append(self.Event(...))` expected")


def tr_rollback(fn):
    body = [st for st in strip_doc(fn.body) if not (isinstance(st, ast.Assign) and ast.unparse(st.value).startswith("logging.getLogger"))]
    if len(body) != 1 or not isinstance(body[0], ast.While) or ast.unparse(body[0].test) != "self._log" or body[0].orelse:
        raise Untranslatable("rollback: a single `while self._log:` loop expected")
    loop = body[0].body
    if not (loop and isinstance(loop[0], ast.Assign) and ast.unparse(loop[0].targets[0]) == "ev"):
        raise Untranslatable("rollback: the loop does not start with `ev = self._log.pop(...)`")
    pop = ast.unparse(loop[0].value)
    if pop in ("self._log.pop()", "self._log.pop(-1)"):
        order = "log.reverse"
    elif pop == "self._log.pop(0)":
        order = "log"
    else:
        raise Untranslatable(f"rollback: {pop}")
    undo_seen = False
    for st in loop[1:]:
        if isinstance(st, ast.Try) and not st.orelse and not st.finalbody and only_logging(st.body) and all(only_logging(h.body) for h in st.handlers):
            continue  # logging that may itself fail
        if isinstance(st, ast.Try) and not st.orelse and not st.finalbody and len(st.body) == 1 and not undo_seen \
                and ast.unparse(st.body[0]) == "ev.undoFunc(*ev.args, **ev.kwargs)":
            if len(st.handlers) != 1 or ast.unparse(st.handlers[0].type) not in ("BaseException", "Exception") or not only_logging(st.handlers[0].body):
                raise Untranslatable("rollback: the handler around the undo function does more than log (the loop may stop early)")
            undo_seen = True
            continue
        if only_logging([st]):
            continue
        raise Untranslatable(f"rollback: statement {ast.unparse(st)[:70]!r}")
    if not undo_seen:
        raise Untranslatable("rollback: the undo function is never called")
    return order


def tr_commit(fn):
    body = strip_doc(fn.body)
    if len(body) == 1 and isinstance(body[0], ast.If) and ast.unparse(body[0].test) == "self.parent is None":
        a, b = strip_doc(body[0].body), strip_doc(body[0].orelse)
        if len(a) == 1 and isinstance(a[0], ast.Return) and a[0].value is None and len(b) == 1:
            t = ast.unparse(b[0])
            if t == "self.parent._log.extend(self._log)":
                return "parent ++ log"
            if t in ("self.parent._log = self._log + self.parent._log", "self.parent._log[:0] = self._log"):
                return "log ++ parent"
    raise Untranslatable("commit: `if self.parent is None: return / else: self.parent._log.extend(self._log)` expected")


STEP = {
    "transaction.rollback()": "rollbackTop",
    "transaction.commit()": "commitTop",
    "self._transaction = transaction.parent": "restoreParent",
}


def tr_steps(stmts, allow_raise):
    out, reraises = [], False
    for st in stmts:
        t = ast.unparse(st)
        if t in STEP:
            if reraises:
                raise Untranslatable("statement after `raise`")
            out.append(STEP[t])
        elif isinstance(st, ast.Raise) and st.exc is None and allow_raise:
            reraises = True
        elif isinstance(st, ast.Pass):
            continue
        else:
            raise Untranslatable(f"Datastore.transaction: statement {t[:70]!r}")
    return out, reraises


def compose(steps):
    term = "s"
    for f in steps:
        term = f"({f} {term})"
    return term


def generate(outdir: str) -> dict:
    tree = ast.parse(open(os.path.join(PKG, "datastore/_datastore.py")).read())
    dt = next((n for n in tree.body if isinstance(n, ast.ClassDef) and n.name == "DatastoreTransaction"), None)
    ds = next((n for n in tree.body if isinstance(n, ast.ClassDef) and n.name == "Datastore"), None)
    if dt is None or ds is None:
        raise Untranslatable("DatastoreTransaction / Datastore not found")
    reg = tr_register(method(dt, "registerUndo"))
    order = tr_rollback(method(dt, "rollback"))
    com = tr_commit(method(dt, "commit"))
    fn = method(ds, "transaction")
    body = strip_doc(fn.body)
    if not (len(body) >= 3 and ast.unparse(body[0]) == "transaction = DatastoreTransaction(self._transaction)"
            and ast.unparse(body[1]) == "self._transaction = transaction" and isinstance(body[2], ast.Try)):
        raise Untranslatable("Datastore.transaction: a new DatastoreTransaction made current, then one try statement, expected")
    t = body[2]
    if [ast.unparse(x) for x in t.body] != ["yield transaction"]:
        raise Untranslatable("Datastore.transaction: the try body is not `yield transaction`")
    if len(t.handlers) > 1 or (t.handlers and ast.unparse(t.handlers[0].type) != "BaseException"):
        raise Untranslatable("Datastore.transaction: one `except BaseException` handler expected")
    exc_steps, reraises = tr_steps(t.handlers[0].body, True) if t.handlers else ([], True)
    else_steps, _ = tr_steps(t.orelse, False)
    fin_steps, _ = tr_steps(t.finalbody, False)
    after_steps, _ = tr_steps(body[3:], False)
    L = ["/-! GENERATED by translate/gen_dstxn.py from datastore/_datastore.py — do not edit. -/", "namespace Gen.DsTxnPy", "",
         "abbrev Tx := List (List Nat)", "/-- the stack of logs and the events undone so far, in the order their undo functions ran -/",
         "abbrev St := Tx × List Nat", "",
         "/-- `DatastoreTransaction.registerUndo` -/", f"def registerUndo (log : List Nat) (ev : Nat) : List Nat := {reg}", "",
         "/-- the order in which `DatastoreTransaction.rollback` runs the undo functions of a log (the log is empty afterwards) -/",
         f"def rollbackOrder (log : List Nat) : List Nat := {order}", "",
         "/-- `DatastoreTransaction.commit` for a transaction with a parent: the parent's new log -/",
         f"def commitInto (parent log : List Nat) : List Nat := {com}", "",
         "/-- `transaction.rollback()` on the current (innermost) transaction -/",
         "def rollbackTop : St → St", "  | (log :: rest, undone) => ([] :: rest, undone ++ rollbackOrder log)", "  | s => s", "",
         "/-- `transaction.commit()` on the current transaction -/",
         "def commitTop : St → St", "  | (log :: parent :: rest, undone) => (log :: commitInto parent log :: rest, undone)", "  | s => s", "",
         "/-- `self._transaction = transaction.parent` -/",
         "def restoreParent : St → St", "  | (_ :: rest, undone) => (rest, undone)", "  | s => s", "",
         "/-- entering `Datastore.transaction()` -/", "def enter : St → St", "  | (st, undone) => ([] :: st, undone)", "",
         "/-- a registration made inside the current transaction (none is current: the event is simply not logged) -/",
         "def register (ev : Nat) : St → St", "  | (log :: rest, undone) => (registerUndo log ev :: rest, undone)", "  | s => s", "",
         "/-- the `except BaseException` block -/", f"def onException (s : St) : St := {compose(exc_steps)}",
         f"def handlerReraises : Bool := {'true' if reraises else 'false'}", "",
         "/-- the `else` block -/", f"def onSuccess (s : St) : St := {compose(else_steps)}", "",
         "/-- the `finally` block -/", f"def finallyBlock (s : St) : St := {compose(fin_steps)}", "",
         "/-- statements after the `try` statement (reached only when no exception is passing through) -/",
         f"def afterTry (s : St) : St := {compose(after_steps)}", "",
         "/-- leaving the context: with an exception passing through (`failed`) or normally -/",
         "def leave (failed : Bool) (s : St) : St :=",
         "  if failed then (if handlerReraises then finallyBlock (onException s) else afterTry (finallyBlock (onException s)))",
         "  else afterTry (finallyBlock (onSuccess s))", "", "end Gen.DsTxnPy", ""]
    open(os.path.join(outdir, "DsTxnPy.lean"), "w").write("\n".join(L))
    return {}


if __name__ == "__main__":
    out = sys.argv[1] if len(sys.argv) > 1 else "/verif/lean/ButlerModel/ButlerModel/Gen"
    print(generate(out))
