"""Generate Gen/SyncPy.lean: the decision `Database.sync` (`registry/interfaces/_database.py`) takes on a writeable table after its
`INSERT … ON CONFLICT IGNORE` and the query for the row, translated from the working tree — from `if n < 1: raise
ConflictingDefinitionError(…)` to the end of that `with self.transaction():` block.

`n` is the number of rows with the given keys, `bad` whether the existing row differs in a compared column (the `inconsistencies`
dictionary is non-empty), `inserted` whether the insert added the row, `update` the caller's flag.  The result is what
`inserted_or_updated` ends up as: 0 = `False` (the row was there and agrees), 1 = `True` (inserted), 2 = the dictionary of updated
columns.  The `UPDATE` statement itself (`connection.execute(…)`) is an effect that is not represented beyond that result; messages
of exceptions are not evaluated.
"""
from __future__ import annotations

import os
import sys

sys.path.insert(0, os.path.dirname(__file__))
from py2lean import Spec, translate_file  # noqa: E402

REPO = os.environ.get("VERIF_REPO", "/repo")
PKG = os.path.join(REPO, "python/lsst/daf/butler")


def generate(outdir: str) -> dict:
    spec = Spec(
        "Database.sync", "syncDecision", [("n", "Int"), ("bad", "Bool"), ("inserted", "Bool"), ("update", "Bool")], "Except String Nat", kind="except",
        start_at="if n < 1:\n    raise ConflictingDefinitionError",
        tail_result="(Except.ok inserted_or_updated)",
        skip_prefixes=("warnings.", "connection.execute"),
        stmt_rewrites={
            "inserted_or_updated = bad": ("inserted_or_updated", "(2 : Nat)"),
            "inserted_or_updated = inserted": ("inserted_or_updated", "(if inserted then 1 else 0 : Nat)"),
        },
    )
    txt = translate_file(os.path.join(PKG, "registry/interfaces/_database.py"), [spec], "Gen.SyncPy")
    open(os.path.join(outdir, "SyncPy.lean"), "w").write(txt)
    return {}


if __name__ == "__main__":
    out = sys.argv[1] if len(sys.argv) > 1 else "/verif/lean/ButlerModel/ButlerModel/Gen"
    print(generate(out))
