"""Generate Gen/PostprocessingPy.lean: the control flow of `Postprocessing.apply`
(`direct_query_driver/_postprocessing.py`) translated from the working tree.

What is kept: the guards before the loop, `continue` for rows the post-filter rejects, `yield row`, the in-place
decrement of `self._limit` and the `return` when it reaches zero.  What is abstracted (named in the substitution table,
which pins the exact source text): the region tests of one row are the predicate `p row`; the ambiguity check of
calibration lookups (`check_validity_match_count`) is off; "post-processing is needed" (`not (self or ...)`) is the flag
`active`.
"""
from __future__ import annotations

import os
import sys

sys.path.insert(0, os.path.dirname(__file__))
from py2lean import GenLoopTr, Spec, translate_file  # noqa: E402

REPO = os.environ.get("VERIF_REPO", "/repo")
PKG = os.path.join(REPO, "python/lsst/daf/butler")

REGION_TEST = (
    "any((Region.decodeOverlapsBase64(m[c]) is False for c in self.spatial_expression_filtering)) or "
    "any((m[a].overlaps(m[b]) is False for a, b in joins)) or "
    "any((m[field].overlaps(region) is False for field, region in where))"
)


def generate(outdir: str) -> dict:
    spec = Spec(
        "Postprocessing.apply", "applyPy",
        [("p", "α → Bool"), ("active", "Bool"), ("limit", "Option Nat"), ("rows", "List α")], "List α × Option Nat",
        subst={
            "not (self or self.check_validity_match_count)": "(!active)",
            "self._limit == 0": "(limit == some 0)",
            "self._limit is not None": "limit.isSome",
            REGION_TEST: "(!(p row))",
        },
        variants={"self.check_validity_match_count and m[self.VALIDITY_MATCH_COUNT] > 1": False},
    )
    txt = translate_file(
        os.path.join(PKG, "direct_query_driver/_postprocessing.py"), [spec], "Gen.PostPy",
        opens="variable {α : Type}",
        tr_cls=lambda sp: GenLoopTr(sp, state_attr="self._limit", state_name="limit", rows_name="rows", skip_assign=("joins", "where", "m")),
    )
    open(os.path.join(outdir, "PostprocessingPy.lean"), "w").write(txt)
    return {}


if __name__ == "__main__":
    out = sys.argv[1] if len(sys.argv) > 1 else "/verif/lean/ButlerModel/ButlerModel/Gen"
    print(generate(out))
