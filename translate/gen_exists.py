"""Generate Gen/ExistsPy.lean from the working tree:

* the members of the `DatasetExistence` flag enum (`_dataset_existence.py`) with their values (`auto()` members take the next
  power of two, in order of definition; combinations are `A | B | …`) and its `__bool__`;
* the tail of `DirectButler.exists` (`direct_butler/_direct_butler.py`) from `if self._datastore.knows(ref):` to
  `return existence`: how the datastore's answers are folded into the flags.  `self._datastore.knows(ref)` is the parameter `ds`,
  `self._datastore.exists(ref)` the parameter `art`, `full_check` the parameter `full`; the flags gathered before that point
  (RECORDED exactly when the registry has the dataset) are the parameter `existence`.

Flags are natural numbers with `|||` / `&&&`.  Anything outside the forms named here raises `Untranslatable`.
"""
from __future__ import annotations

import ast
import os
import sys

sys.path.insert(0, os.path.dirname(__file__))
from py2lean import Untranslatable  # noqa: E402

REPO = os.environ.get("VERIF_REPO", "/repo")
PKG = os.path.join(REPO, "python/lsst/daf/butler")

CMP = {ast.Eq: "==", ast.NotEq: "!="}
CMP_ORD = {ast.Lt: "<", ast.LtE: "≤", ast.Gt: ">", ast.GtE: "≥"}
CALLS = {"self._datastore.knows(ref)": "ds", "self._datastore.exists(ref)": "art"}


def lname(n):
    return n.lstrip("_")


def parse_enum(cls):
    members, nxt = {}, 1
    order = []
    for st in cls.body:
        if isinstance(st, ast.Assign) and len(st.targets) == 1 and isinstance(st.targets[0], ast.Name):
            name = st.targets[0].id
            v = st.value
            if isinstance(v, ast.Call) and isinstance(v.func, ast.Name) and v.func.id == "auto" and not v.args:
                members[name] = nxt
                nxt *= 2
            elif isinstance(v, ast.Constant) and isinstance(v.value, int):
                members[name] = v.value
                while nxt <= v.value:
                    nxt *= 2
            else:
                def ev(e):
                    if isinstance(e, ast.Name) and e.id in members:
                        return members[e.id]
                    if isinstance(e, ast.BinOp) and isinstance(e.op, ast.BitOr):
                        return ev(e.left) | ev(e.right)
                    raise Untranslatable(f"enum member {name} = {ast.unparse(v)}")
                members[name] = ev(v)
            order.append(name)
    return members, order


def value_expr(e, members, enum_prefix):
    """An integer-valued expression: self.value / existence.value, <Enum>.NAME.value / self.NAME.value, `&`, `|`."""
    if isinstance(e, ast.Attribute) and e.attr == "value":
        b = e.value
        if isinstance(b, ast.Name) and b.id in ("self", "existence"):
            return "v" if b.id == "self" else "existence"
        if isinstance(b, ast.Attribute) and isinstance(b.value, ast.Name) and b.value.id in ("self", enum_prefix) and b.attr in members:
            return lname(b.attr)
    if isinstance(e, ast.BinOp) and isinstance(e.op, (ast.BitAnd, ast.BitOr)):
        return f"({value_expr(e.left, members, enum_prefix)} {'&&&' if isinstance(e.op, ast.BitAnd) else '|||'} {value_expr(e.right, members, enum_prefix)})"
    if isinstance(e, ast.Constant) and isinstance(e.value, int) and not isinstance(e.value, bool):
        return str(e.value)
    raise Untranslatable(f"value expression: {ast.unparse(e)}")


def bool_expr(e, members, enum_prefix):
    if isinstance(e, ast.BoolOp):
        op = " || " if isinstance(e.op, ast.Or) else " && "
        return "(" + op.join(bool_expr(x, members, enum_prefix) for x in e.values) + ")"
    if isinstance(e, ast.UnaryOp) and isinstance(e.op, ast.Not):
        return f"(!{bool_expr(e.operand, members, enum_prefix)})"
    if isinstance(e, ast.Compare) and len(e.ops) == 1:
        a, b = value_expr(e.left, members, enum_prefix), value_expr(e.comparators[0], members, enum_prefix)
        if type(e.ops[0]) in CMP:
            return f"({a} {CMP[type(e.ops[0])]} {b})"
        if type(e.ops[0]) in CMP_ORD:
            return f"decide ({a} {CMP_ORD[type(e.ops[0])]} {b})"
    if isinstance(e, ast.Call) and isinstance(e.func, ast.Name) and e.func.id == "bool" and len(e.args) == 1:
        return f"({value_expr(e.args[0], members, enum_prefix)} != 0)"
    if isinstance(e, ast.Name) and e.id == "full_check":
        return "full"
    if isinstance(e, ast.Call) and ast.unparse(e) in CALLS:
        return CALLS[ast.unparse(e)]
    raise Untranslatable(f"condition: {ast.unparse(e)}")


def flag_operand(e, members):
    # DatasetExistence.NAME or DatasetExistence(DatasetExistence.NAME)
    if isinstance(e, ast.Call) and isinstance(e.func, ast.Name) and e.func.id == "DatasetExistence" and len(e.args) == 1:
        e = e.args[0]
    if isinstance(e, ast.Attribute) and isinstance(e.value, ast.Name) and e.value.id == "DatasetExistence" and e.attr in members:
        return lname(e.attr)
    if isinstance(e, ast.BinOp) and isinstance(e.op, ast.BitOr):
        return f"({flag_operand(e.left, members)} ||| {flag_operand(e.right, members)})"
    raise Untranslatable(f"flag operand: {ast.unparse(e)}")


def block(stmts, members, ind):
    pad = " " * ind
    out = []
    for st in stmts:
        if isinstance(st, ast.Expr) and isinstance(st.value, ast.Constant):
            continue
        if isinstance(st, ast.AugAssign) and isinstance(st.target, ast.Name) and st.target.id == "existence" and isinstance(st.op, (ast.BitOr, ast.BitAnd)):
            out.append(f"{pad}let existence : Nat := existence {'|||' if isinstance(st.op, ast.BitOr) else '&&&'} {flag_operand(st.value, members)}")
        elif isinstance(st, ast.Assign) and len(st.targets) == 1 and isinstance(st.targets[0], ast.Name) and st.targets[0].id == "existence":
            out.append(f"{pad}let existence : Nat := {flag_operand(st.value, members)}")
        elif isinstance(st, ast.If):
            out.append(f"{pad}let existence : Nat := if {bool_expr(st.test, members, 'DatasetExistence')} then (\n{block(st.body, members, ind + 4)}) else (\n"
                       f"{block(st.orelse, members, ind + 4)})")
        elif isinstance(st, ast.Return) and isinstance(st.value, ast.Name) and st.value.id == "existence":
            break
        else:
            raise Untranslatable(f"statement: {ast.unparse(st)[:90]}")
    out.append(f"{pad}existence")
    return "\n".join(out)


def generate(outdir: str) -> dict:
    tree = ast.parse(open(os.path.join(PKG, "_dataset_existence.py")).read())
    cls = next((n for n in tree.body if isinstance(n, ast.ClassDef) and n.name == "DatasetExistence"), None)
    if cls is None or not any(ast.unparse(b) == "Flag" for b in cls.bases):
        raise Untranslatable("DatasetExistence(Flag) not found")
    members, order = parse_enum(cls)
    fn = next((n for n in cls.body if isinstance(n, ast.FunctionDef) and n.name == "__bool__"), None)
    if fn is None:
        bool_body = "(v != 0)"  # enum.Flag's own truth value
    else:
        rets = [st for st in fn.body if not (isinstance(st, ast.Expr) and isinstance(st.value, ast.Constant))]
        if len(rets) != 1 or not isinstance(rets[0], ast.Return):
            raise Untranslatable("__bool__: a single return statement expected")
        bool_body = bool_expr(rets[0].value, members, "DatasetExistence")
    tree2 = ast.parse(open(os.path.join(PKG, "direct_butler/_direct_butler.py")).read())
    db = next((n for n in tree2.body if isinstance(n, ast.ClassDef) and n.name == "DirectButler"), None)
    ex = next((n for n in (db.body if db else []) if isinstance(n, ast.FunctionDef) and n.name == "exists"), None)
    if ex is None:
        raise Untranslatable("DirectButler.exists not found")
    start = next((i for i, st in enumerate(ex.body) if isinstance(st, ast.If) and ast.unparse(st.test) == "self._datastore.knows(ref)"), None)
    if start is None:
        raise Untranslatable("DirectButler.exists: `if self._datastore.knows(ref):` not found at the top level of the body")
    tail = ex.body[start:]
    if not (isinstance(tail[-1], ast.Return) and ast.unparse(tail[-1]) == "return existence"):
        raise Untranslatable("DirectButler.exists does not end with `return existence`")
    lines = ["/-! GENERATED by translate/gen_exists.py from _dataset_existence.py and direct_butler/_direct_butler.py — do not edit. -/",
             "namespace Gen.ExistsPy", ""]
    for n in order:
        lines.append(f"def {lname(n)} : Nat := {members[n]}")
    lines += ["", "/-- `DatasetExistence.__bool__` on the flag value `v` -/", f"def boolPy (v : Nat) : Bool := {bool_body}", "",
              "/-- the tail of `DirectButler.exists` -/", "def existsTail (existence : Nat) (ds art full : Bool) : Nat :=", block(tail, members, 2), "",
              "end Gen.ExistsPy", ""]
    open(os.path.join(outdir, "ExistsPy.lean"), "w").write("\n".join(lines))
    return {"members": {n: members[n] for n in order}}


if __name__ == "__main__":
    out = sys.argv[1] if len(sys.argv) > 1 else "/verif/lean/ButlerModel/ButlerModel/Gen"
    print(generate(out))
