"""Generate Gen/PredicatePy.lean: the boolean combinators of the new query system's `Predicate`
(`from_bool`, `_impl_and`, `_impl_or`, `logical_and`, `logical_or`, `logical_not` in
`queries/tree/_predicate.py`) translated from the working tree.

A `Predicate` is its `operands` (a tuple of tuples of leaves: AND of ORs); `model_construct(operands=x)`
is `x`.  Leaves are `Pred.Leaf` (an opaque atom or its negation; `leaf.invert()` is `Pred.Leaf.invert`).
`_impl_and`'s object-identity shortcut (`a + b if a is not b else a`) is translated for distinct objects;
the identical-object case is the hand model `Pred.implAndId` (theorem `C15.eval_logicalAndId`).
"""
from __future__ import annotations

import ast
import os
import sys

sys.path.insert(0, os.path.dirname(__file__))
from py2lean import Spec, Tr, Untranslatable, translate_file  # noqa: E402

REPO = os.environ.get("VERIF_REPO", "/repo")
PKG = os.path.join(REPO, "python/lsst/daf/butler")


def call_construct(tr: Tr, n: ast.Call) -> str:
    kw = {k.arg: k.value for k in n.keywords}
    if n.args or set(kw) != {"operands"}:
        raise Untranslatable("model_construct with other than operands=")
    return tr.e(kw["operands"])


def call2(name: str):
    def h(tr: Tr, n: ast.Call) -> str:
        if len(n.args) != 2 or n.keywords:
            raise Untranslatable(f"{name} with other than two arguments")
        return f"({name} {tr.e(n.args[0])} {tr.e(n.args[1])})"

    return h


def call_tuple(tr: Tr, n: ast.Call) -> str:
    if len(n.args) != 1 or n.keywords:
        raise Untranslatable("tuple() with other than one argument")
    return tr.e(n.args[0])


def call_invert(tr: Tr, n: ast.Call) -> str:
    if n.args or n.keywords:
        raise Untranslatable("invert() with arguments")
    return f"(Pred.Leaf.invert {tr.e(n.func.value)})"


COMMON = dict(
    tuple_as_list=True,
    add_is_append=True,
    subst={
        "self.operands": "self",
        "arg.operands": "arg",
        # truthiness of a tuple: non-empty
        "not all(operands)": "(!(operands.all (fun g => !g.isEmpty)))",
    },
    calls={
        "Predicate.model_construct": call_construct,
        "cls.model_construct": call_construct,
        "self._impl_and": call2("implAnd"),
        "self._impl_or": call2("implOr"),
        "cls._impl_and": call2("implAnd"),
        "cls._impl_or": call2("implOr"),
        "tuple": call_tuple,
        "leaf.invert": call_invert,
    },
)


def generate(outdir: str) -> dict:
    O = "Pred.Operands"
    specs = [
        Spec("Predicate._impl_and", "implAnd", [("a", O), ("b", O)], O, variants={"a is not b": True}, **COMMON),
        Spec("Predicate._impl_or", "implOr", [("a", O), ("b", O)], O, **COMMON),
        Spec("Predicate.from_bool", "fromBool", [("value", "Bool")], O, **COMMON),
        Spec("Predicate.logical_and", "logicalAnd", [("self", O), ("args", f"List {O}")], O, **COMMON),
        Spec("Predicate.logical_or", "logicalOr", [("self", O), ("args", f"List {O}")], O, **COMMON),
        Spec("Predicate.logical_not", "logicalNot", [("self", O)], O, **COMMON),
    ]
    txt = translate_file(
        os.path.join(PKG, "queries/tree/_predicate.py"), specs, "Gen.PredPy",
        header="import ButlerModel.Model.Predicate",
    )
    open(os.path.join(outdir, "PredicatePy.lean"), "w").write(txt)
    return {}


if __name__ == "__main__":
    out = sys.argv[1] if len(sys.argv) > 1 else "/verif/lean/ButlerModel/ButlerModel/Gen"
    print(generate(out))
