"""Generate Gen/StandardizePy.lean: `DataCoordinate.standardize` (`dimensions/_coordinate.py`) for a plain mapping, translated from
the working tree — from `if dimensions is not None: dimensions = universe.conform(dimensions)` to the end: the order in which the
mapping, the keywords and the defaults are merged, the empty group, the full / required-only / missing-key outcomes.

Dictionaries are association lists `DataId.Assoc` read with `DataId.getv` (first entry wins; `update` puts the new entries in front).
Named abstractions (exact source text → Lean): `universe.conform(dimensions)` and `DimensionGroup(universe, keys)` are `Dim.closeFast U`;
`new_mapping.keys() >= dimensions.names` is "every dimension of the group has a value"; `from_full_values` / `from_required_values`
build the model's `DataId` from the looked-up values; the `numbers.Integral` → `int` loop is the identity on the model's values;
the selection of the universe when `dimensions is None` is not modelled (the universe is the parameter `U`); only the branch
`not isinstance(mapping, DataCoordinate)` with a mapping present is translated.  `dimsNone` says whether `dimensions` was `None`
(then the binder `dimensions` is not looked at before it is assigned).
"""
from __future__ import annotations

import os
import sys

sys.path.insert(0, os.path.dirname(__file__))
from py2lean import Spec, translate_file  # noqa: E402

REPO = os.environ.get("VERIF_REPO", "/repo")
PKG = os.path.join(REPO, "python/lsst/daf/butler")


def generate(outdir: str) -> dict:
    val = "(fun d => (d, (DataId.getv new_mapping d).getD 0))"
    spec = Spec(
        "DataCoordinate.standardize", "standardizePy",
        [("U", "Dim.Universe"), ("mapping", "DataId.Assoc"), ("kwargs", "DataId.Assoc"), ("dimsNone", "Bool"), ("dimensions", "List Nat"),
         ("defaults", "DataId.Assoc")],
        "Except String DataId.DataId", kind="except", rename={"universe": "universe_"},
        start_at="if dimensions is not None:\n    dimensions = universe.conform(dimensions)",
        variants={"isinstance(mapping, DataCoordinate)": False, "mapping is not None": True, "defaults is not None": True},
        subst={
            "dimensions is not None": "(!dimsNone)",
            "dimensions is None": "dimsNone",
            "universe.conform(dimensions)": "(Dim.closeFast U dimensions)",
            "{}": "([] : DataId.Assoc)",
            "DimensionGroup(universe, new_mapping.keys())": "(Dim.closeFast U (new_mapping.map (fun (p : Nat × Nat) => p.1)))",
            "not dimensions": "dimensions.isEmpty",
            "DataCoordinate.make_empty(universe)": "(⟨[], [], true⟩ : DataId.DataId)",
            "defaults.mapping.items()": "defaults",
            "new_mapping.keys() >= dimensions.names": "(dimensions.all (fun d => (DataId.getv new_mapping d).isSome))",
            "DataCoordinate.from_full_values(dimensions, tuple((new_mapping[name] for name in dimensions.data_coordinate_keys)))":
                f"(⟨dimensions, (Dim.required U dimensions ++ Dim.implied U dimensions).map {val}, true⟩ : DataId.DataId)",
            "tuple((new_mapping[name] for name in dimensions.required))": f"((Dim.required U dimensions).map {val})",
            "DataCoordinate.from_required_values(dimensions, values)": "(⟨dimensions, values, false⟩ : DataId.DataId)",
        },
        stmt_rewrites={
            "new_mapping.update(mapping)": ("new_mapping", "(DataId.update new_mapping mapping)"),
            "new_mapping.update(kwargs)": ("new_mapping", "(DataId.update new_mapping kwargs)"),
            "if defaults is not None:\n    universe = defaults.universe\nelif universe is None:\n    raise TypeError('universe must be provided if dimensions is not.')":
                ("universe", "()"),
            "for k, v in new_mapping.items():\n    if isinstance(v, numbers.Integral):\n        new_mapping[k] = int(v)": ("new_mapping", "new_mapping"),
            "new_mapping.setdefault(k, v)": ("new_mapping", "(DataId.setdefault new_mapping k v)"),
        },
        try_raises={"values = tuple((new_mapping[name] for name in dimensions.required))":
                    "(!(Dim.required U dimensions).all (fun d => (DataId.getv new_mapping d).isSome))"},
    )
    txt = translate_file(os.path.join(PKG, "dimensions/_coordinate.py"), [spec], "Gen.StandardizePy", header="import ButlerModel.Model.DataId")
    open(os.path.join(outdir, "StandardizePy.lean"), "w").write(txt)
    return {}


if __name__ == "__main__":
    out = sys.argv[1] if len(sys.argv) > 1 else "/verif/lean/ButlerModel/ButlerModel/Gen"
    print(generate(out))
