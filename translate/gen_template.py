"""Generate Gen/TemplatePy.lean: how `FileTemplate.format` (`datastore/file_templates.py`) writes one field value into the path —
one iteration of its loop over the template fields, from `replace_slash = True` to the end of the loop body, translated from the
working tree: the `/` marker in the format specification, blanks and slashes replaced by underscores in string values, the value
appended after the literal text.

Strings are `List Char`.  Named abstractions (exact source text → Lean): `'/' in format_spec` is `format_spec.contains '/'`;
`format_spec.replace('/', '')` filters the character out; `value.replace(a, b)` with one-character strings is a map over the
characters; `isinstance(value, str)` is true (the values of the model are strings); no conversion (`!r`, `!s`) is applied;
`format(value, format_spec)` of a string with the (then empty) specification is the string itself.
"""
from __future__ import annotations

import os
import sys

sys.path.insert(0, os.path.dirname(__file__))
from py2lean import Spec, translate_file  # noqa: E402

REPO = os.environ.get("VERIF_REPO", "/repo")
PKG = os.path.join(REPO, "python/lsst/daf/butler")


def generate(outdir: str) -> dict:
    spec = Spec(
        "FileTemplate.format", "writeField",
        [("output", "List Char"), ("literal", "List Char"), ("value", "List Char"), ("format_spec", "List Char")], "List Char",
        start_at="replace_slash = True",
        tail_result="output",
        add_is_append=True,
        variants={"isinstance(value, str)": True, "conversion": False},
        subst={
            "'/' in format_spec": "(format_spec.contains '/')",
            "format_spec.replace('/', '')": "(format_spec.filter (· != '/'))",
            "value.replace(' ', '_')": "(value.map (fun c => if c = ' ' then '_' else c))",
            "value.replace('/', '_')": "(value.map (fun c => if c = '/' then '_' else c))",
            "format(value, format_spec)": "value",
        },
    )
    txt = translate_file(os.path.join(PKG, "datastore/file_templates.py"), [spec], "Gen.TemplatePy")
    open(os.path.join(outdir, "TemplatePy.lean"), "w").write(txt)
    return {}


if __name__ == "__main__":
    out = sys.argv[1] if len(sys.argv) > 1 else "/verif/lean/ButlerModel/ButlerModel/Gen"
    print(generate(out))
