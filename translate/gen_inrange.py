"""Generate Gen/InRangeSql.lean: `SqlColumnVisitor.visit_in_range` translated from the working tree."""
from __future__ import annotations

import ast
import os
import sys

sys.path.insert(0, os.path.dirname(__file__))
from py2lean import Spec, Tr, Untranslatable, translate_file  # noqa: E402

REPO = os.environ.get("VERIF_REPO", "/repo")
PKG = os.path.join(REPO, "python/lsst/daf/butler")


def call_between(tr: Tr, n: ast.Call) -> str:
    if len(n.args) != 3:
        raise Untranslatable("between with other than three arguments")
    return f"(Sql.E.between {tr.e(n.args[0])} {tr.e(n.args[1])} {tr.e(n.args[2])})"


def call_and(tr: Tr, n: ast.Call) -> str:
    args = n.args
    if len(args) == 1 and isinstance(args[0], ast.Starred) and isinstance(args[0].value, ast.List):
        args = args[0].value.elts
    if any(isinstance(a, ast.Starred) for a in args):
        raise Untranslatable("and_ over a starred non-literal list")
    return tr._nest("Sql.E.and", [tr.e(a) for a in args])


def generate(outdir: str) -> dict:
    spec = Spec(
        "SqlColumnVisitor.visit_in_range", "inRangeSql",
        [("member", "Sql.E"), ("start", "Int"), ("stop", "Option Int"), ("step", "Int")], "Sql.E", mode="sql",
        subst={
            # Python-level (not SQL) tests and arithmetic on the literal bounds
            "self.expect_scalar(member)": "member",
            "stop is None": "stop.isNone",
            "stop - 1": "((stop.getD 0) - 1)",
            "start == stop_inclusive": "decide (start = stop_inclusive)",
            "step != 1": "decide (step ≠ 1)",
            "start % step": "(Int.fmod start step)",
        },
        calls={"sqlalchemy.sql.between": call_between, "sqlalchemy.sql.and_": call_and},
    )
    txt = translate_file(
        os.path.join(PKG, "direct_query_driver/_sql_column_visitor.py"), [spec], "Gen.InRange",
        header="import ButlerModel.Model.Sql3",
    )
    open(os.path.join(outdir, "InRangeSql.lean"), "w").write(txt)
    return {}


if __name__ == "__main__":
    out = sys.argv[1] if len(sys.argv) > 1 else "/verif/lean/ButlerModel/ButlerModel/Gen"
    print(generate(out))
