"""Generate Gen/CachePy.lean: `DatastoreCacheManager._expire_cache` (`datastore/cache_manager.py`) translated from the
working tree, one definition per expiration mode (`files`, `datasets`, `size`, `age`; the dict of lists that the `datasets` mode builds
is `Py.Groups`, an association list in insertion order).

State: the files on disk and the client's `CacheRegistry` (`Cache.Reg` of Model/Cache.lean).  `self.scan_cache()` and
`self._remove_from_cache(keys)` are the hand-modelled effects `Cache.scan` / `Cache.removeKeys`; `_sort_cache()` is
`Cache.sortCache` (stable sort by ctime); the loops iterate over the *entries* in that order, so
`self._cache_entries[key].ctime` is `key.ctime` and `[key]` is `[key.key]`.
"""
from __future__ import annotations

import os
import sys

sys.path.insert(0, os.path.dirname(__file__))
from py2lean import Spec, StateTr, translate_file  # noqa: E402

REPO = os.environ.get("VERIF_REPO", "/repo")
PKG = os.path.join(REPO, "python/lsst/daf/butler")

MODES = ("files", "datasets", "size", "age")


def spec_for(mode: str) -> Spec:
    variants = {"self._expiration_mode is None": False, "self._expiration_threshold is None": False}
    for m in MODES:
        variants[f"self._expiration_mode == '{m}'"] = m == mode
    return Spec(
        "DatastoreCacheManager._expire_cache", f"expire_{mode}",
        [("thr", "Int"), ("now", "Int"), ("disk", "List Cache.Entry"), ("r", "Cache.Reg")], "List Cache.Entry × Cache.Reg",
        variants=variants,
        subst={
            "len(self._cache_entries)": "(r.entries.length : Int)",
            "self._expiration_threshold": "thr",
            "self._sort_cache()": "(Cache.sortCache r.entries)",
            "self.cache_size": "(r.size : Int)",
            "[key]": "[key.key]",
            "datetime.datetime.now(datetime.UTC)": "now",
            "now - self._cache_entries[key].ctime": "(now - key.ctime)",
            "delta.total_seconds()": "delta",
            # files mode: the keys to remove are the keys of the first n_over entries
            "sorted_keys[:n_over]": "(((sorted_keys).take (Int.toNat n_over)).map (·.key))",
            # datasets mode: `datasets` is a dict ref -> list of keys, in insertion order (Py.Groups)
            "defaultdict(list)": "([] : Py.Groups)",
            "self._cache_entries[key]": "key",
            "len(datasets)": "(datasets.length : Int)",
            "list(datasets.keys())[:n_over]": "((Py.groupKeys datasets).take (Int.toNat n_over))",
            "list(itertools.chain.from_iterable((datasets[ref_id] for ref_id in ref_ids)))": "(ref_ids.flatMap (fun ref_id => Py.groupGet datasets ref_id))",
        },
        stmt_rewrites={"datasets[entry.ref].append(key)": ("datasets", "(Py.groupAppend datasets entry.ref key.key)")},
    )


def generate(outdir: str) -> dict:
    specs = [spec_for(m) for m in ("files", "datasets", "size", "age")]
    txt = translate_file(
        os.path.join(PKG, "datastore/cache_manager.py"), specs, "Gen.CachePy",
        header="import ButlerModel.Model.Cache\nimport ButlerModel.Model.Py",
        tr_cls=lambda sp: StateTr(sp, state=("disk", "r"), state_types=("List Cache.Entry", "Cache.Reg"), effects={
            "self.scan_cache": "(fun disk r => (disk, Cache.scan disk r))",
            "self._remove_from_cache": "Cache.removeKeys",
        }),
    )
    open(os.path.join(outdir, "CachePy.lean"), "w").write(txt)
    return {}


if __name__ == "__main__":
    out = sys.argv[1] if len(sys.argv) > 1 else "/verif/lean/ButlerModel/ButlerModel/Gen"
    print(generate(out))
