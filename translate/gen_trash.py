"""Generate Gen/TrashPy.lean: the recount of `FileDatastore.emptyTrash` (`datastores/fileDatastore.py`) translated from the working
tree — from `for ref, info in trashed_list:` to the end of that block: every trashed dataset is taken out of the set of datasets
recorded at its artifact, artifacts nobody is left at are dropped from the map, and the artifacts still in the map are kept
(merged with what the bridge had worked out, when it had).

`path_map` (a `defaultdict(set)` from artifact path to dataset ids) is `Artifacts.PM`: its keys and a lookup with default `[]`.
Named abstractions (exact source text → Lean): `info.artifact_path` and `ref.id` are the two components of a trashed entry;
`ref.id in path_map[path]` is `(pmGet path_map path).contains ref`; `path_map[path].remove(ref.id)` removes the id from the set at
`path`; `not path_map[path]` is emptiness of that set; `del path_map[path]` drops the key; `set(path_map)` are the keys.  (Looking a
missing key up in a defaultdict inserts it with an empty set; the `del` that follows in the same iteration removes it again, so the
insertion is not modelled.)  `artifacts_to_keep is not None` is the parameter `bridgeHelped`.
"""
from __future__ import annotations

import os
import sys

sys.path.insert(0, os.path.dirname(__file__))
from py2lean import Spec, translate_file  # noqa: E402

REPO = os.environ.get("VERIF_REPO", "/repo")
PKG = os.path.join(REPO, "python/lsst/daf/butler")


def generate(outdir: str) -> dict:
    spec = Spec(
        "FileDatastore.emptyTrash", "recount",
        [("trashed_list", "List (Nat × Nat)"), ("path_map", "Artifacts.PM"), ("bridgeHelped", "Bool"), ("artifacts_to_keep", "List Nat")], "List Nat",
        start_at="for ref, info in trashed_list:\n    path = info.artifact_path",
        tail_result="artifacts_to_keep",
        subst={
            "info.artifact_path": "info",
            "ref.id in path_map[path]": "((Artifacts.pmGet path_map path).contains ref)",
            "not path_map[path]": "(Artifacts.pmGet path_map path).isEmpty",
            "set(path_map)": "(Artifacts.pmKeys path_map)",
            "artifacts_to_keep is not None": "bridgeHelped",
        },
        stmt_rewrites={
            "path_map[path].remove(ref.id)": ("path_map", "(Artifacts.pmSet path_map path ((Artifacts.pmGet path_map path).filter (· != ref)))"),
            "del path_map[path]": ("path_map", "(Artifacts.pmDel path_map path)"),
            "artifacts_to_keep.update(slow_artifacts_to_keep)": ("artifacts_to_keep", "(artifacts_to_keep ++ slow_artifacts_to_keep)"),
        },
    )
    txt = translate_file(os.path.join(PKG, "datastores/fileDatastore.py"), [spec], "Gen.TrashPy", header="import ButlerModel.Model.Artifacts")
    open(os.path.join(outdir, "TrashPy.lean"), "w").write(txt)
    return {}


if __name__ == "__main__":
    out = sys.argv[1] if len(sys.argv) > 1 else "/verif/lean/ButlerModel/ButlerModel/Gen"
    print(generate(out))
