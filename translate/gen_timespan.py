"""Generate Gen/TimeConst.lean, Gen/TimespanPy.lean, Gen/TimespanSql.lean from /repo."""
from __future__ import annotations

import ast
import os
import sys

sys.path.insert(0, os.path.dirname(__file__))
from py2lean import Spec, Tr, translate_file  # noqa: E402

REPO = os.environ.get("VERIF_REPO", "/repo")
PKG = os.path.join(REPO, "python/lsst/daf/butler")

SELF_SUBST = {
    "self.nsec[0]": "self.b",
    "self.nsec[1]": "self.e",
    "other.nsec[0]": "other.b",
    "other.nsec[1]": "other.e",
    "intersection.nsec[0]": "intersection.b",
    "intersection.nsec[1]": "intersection.e",
    "ts.nsec[0]": "ts.b",
    "ts.nsec[1]": "ts.e",
    "TimeConverter().astropy_to_nsec(other)": "other",
    "self.nsec": "self",
    "other.nsec": "other",
    "converter.min_nsec": "Gen.minNsec",
    "converter.max_nsec": "Gen.maxNsec",
    "TimeConverter().min_nsec": "Gen.minNsec",
    "TimeConverter().max_nsec": "Gen.maxNsec",
    "TimeConverter()": "()",
    "not args": "args.isEmpty",
    "intersection == self": "decide (intersection = self)",
}


def call_timespan(tr: Tr, n: ast.Call) -> str:
    kw = {k.arg: k.value for k in n.keywords}
    if "_nsec" not in kw:
        raise Exception("Timespan(...) call without _nsec in translated code")
    v = kw["_nsec"]
    if isinstance(v, ast.Tuple) and len(v.elts) == 2:
        return f"(ctorNsec ({tr.e(v.elts[0])}, {tr.e(v.elts[1])}))"
    return f"(ctorNsec {tr.e(v)})"


def call_method(name: str):
    def h(tr: Tr, n: ast.Call) -> str:
        return "(" + name + " " + " ".join(tr.e(a) for a in n.args) + ")"

    return h


CALLS = {
    "Timespan": call_timespan,
    "self.isEmpty": lambda tr, n: "(isEmpty self)",
    "intersection.isEmpty": lambda tr, n: "(isEmpty intersection)",
    "self.contains": lambda tr, n: "(containsT self " + tr.e(n.args[0]) + ")",
    "self.intersection": lambda tr, n: "(intersection self [" + ", ".join(tr.e(a) for a in n.args) + "])",
}

T_TIME = {"isinstance(other, astropy.time.Time)": True}
T_SPAN = {"isinstance(other, astropy.time.Time)": False}


def py_specs() -> list[Spec]:
    def S(q, name, params, ret, variants=None, kind="value", subst=None):
        sub = dict(SELF_SUBST)
        if subst:
            sub.update(subst)
        return Spec(q, name, params, ret, mode="bool", kind=kind, subst=sub, variants=variants or {}, calls=CALLS)

    init_subst = {
        "begin is None": "begin.isNone",
        "end is None": "end_.isNone",
        "begin is self.EMPTY": "begin.isEmptyTag",
        "end is self.EMPTY": "end_.isEmptyTag",
        "isinstance(begin, astropy.time.Time)": "begin.isTime",
        "isinstance(end, astropy.time.Time)": "end_.isTime",
        "converter.astropy_to_nsec(begin)": "begin.nsec",
        "converter.astropy_to_nsec(end)": "end_.nsec",
        "begin is not None": "(!begin.isNone)",
        "end is not None": "(!end_.isNone)",
        "begin < converter.epoch": "begin.ltEpoch",
        "end > converter.max_time": "end_.gtMax",
        "erfa is not None": "true",
        "_nsec[0]": "_nsec.1",
        "_nsec[1]": "_nsec.2",
        "super().__init__(nsec=_nsec)": "UNUSED",
    }
    specs = [
        # __init__ with _nsec given: the canonicalisation every operation funnels through
        Spec(
            "Timespan.__init__", "ctorNsec", [("_nsec", "Int × Int")], "TS", mode="bool", kind="value",
            subst={**SELF_SUBST, **init_subst}, variants={"_nsec is None": False}, calls=CALLS,
        ),
        Spec(
            "Timespan.__init__", "ctor", [("begin", "Bound"), ("end_", "Bound"), ("padInstantaneous", "Bool")],
            "Except String TS", mode="bool", kind="except",
            subst={**SELF_SUBST, **init_subst}, variants={"_nsec is None": True}, calls=CALLS,
            rename={"end": "end_"},
            # Python: comparing the EMPTY enum member with an astropy Time raises TypeError
            raising_tests={
                "begin is not None and begin < converter.epoch": ("begin.isEmptyTag", "TypeError"),
                "end is not None and end > converter.max_time": ("end_.isEmptyTag", "TypeError"),
            },
        ),
        S("Timespan.isEmpty", "isEmpty", [("self", "TS")], "Bool"),
        S("Timespan.__lt__", "ltT", [("self", "TS"), ("other", "Int")], "Bool", T_TIME),
        S("Timespan.__lt__", "lt", [("self", "TS"), ("other", "TS")], "Bool", T_SPAN),
        S("Timespan.__gt__", "gtT", [("self", "TS"), ("other", "Int")], "Bool", T_TIME),
        S("Timespan.__gt__", "gt", [("self", "TS"), ("other", "TS")], "Bool", T_SPAN),
        S("Timespan.contains", "containsT", [("self", "TS"), ("other", "Int")], "Bool", T_TIME),
        S("Timespan.contains", "contains", [("self", "TS"), ("other", "TS")], "Bool", T_SPAN),
        S("Timespan.overlaps", "overlapsT", [("self", "TS"), ("other", "Int")], "Bool", T_TIME),
        S("Timespan.overlaps", "overlaps", [("self", "TS"), ("other", "TS")], "Bool", T_SPAN),
        S("Timespan.intersection", "intersection", [("self", "TS"), ("args", "List TS")], "TS"),
        S("Timespan.difference", "difference", [("self", "TS"), ("other", "TS")], "List TS", kind="list"),
        S("Timespan.__eq__", "eq", [("self", "TS"), ("other", "TS")], "Bool",
          {"not isinstance(other, Timespan)": False}, subst={"self.nsec == other.nsec": "decide (self = other)"}),
        S("Timespan.makeEmpty", "makeEmpty", [], "TS", subst={"converter = TimeConverter()": ""}),
    ]
    return specs


def finish_ctor(spec_ctor_text: str) -> str:
    return spec_ctor_text


class InitTr(Tr):
    """`__init__` does not return; its result is the `_nsec` handed to `super().__init__`."""

    def block(self, stmts, depth=1, tail=None):
        stmts2 = [s for s in stmts if not self.skippable(s)]
        if len(stmts2) == 1 and ast.unparse(stmts2[0]) == "super().__init__(nsec=_nsec)":
            return self.ret_wrap("(TS.mk _nsec.1 _nsec.2)")
        return super().block(stmts, depth, tail=tail)


SQL_SUBST = {
    "self._nsec[0]": "self.1",
    "self._nsec[1]": "self.2",
    "other._nsec[0]": "other.1",
    "other._nsec[1]": "other.2",
}
Q_COL = {"isinstance(other, sqlalchemy.sql.ColumnElement)": True}
Q_SPAN = {"isinstance(other, sqlalchemy.sql.ColumnElement)": False}


def sql_specs() -> list[Spec]:
    C = "_CompoundTimespanDatabaseRepresentation."
    calls = {"self.contains": lambda tr, n: "(containsT self " + tr.e(n.args[0]) + ")"}

    def S(q, name, params, variants=None):
        return Spec(C + q, name, params, "Sql.E", mode="sql", subst=SQL_SUBST, variants=variants or {}, calls=calls)

    P = ("self", "Sql.E × Sql.E")
    return [
        S("isNull", "isNull", [P]),
        S("isEmpty", "isEmpty", [P]),
        S("__lt__", "ltT", [P, ("other", "Sql.E")], Q_COL),
        S("__lt__", "lt", [P, ("other", "Sql.E × Sql.E")], Q_SPAN),
        S("__gt__", "gtT", [P, ("other", "Sql.E")], Q_COL),
        S("__gt__", "gt", [P, ("other", "Sql.E × Sql.E")], Q_SPAN),
        S("contains", "containsT", [P, ("other", "Sql.E")], Q_COL),
        S("contains", "contains", [P, ("other", "Sql.E × Sql.E")], Q_SPAN),
        S("overlaps", "overlapsT", [P, ("other", "Sql.E")], Q_COL),
        S("overlaps", "overlaps", [P, ("other", "Sql.E × Sql.E")], Q_SPAN),
        S("lower", "lower", [P]),
        S("upper", "upper", [P]),
    ]


def generate(outdir: str) -> dict:
    import lsst.daf.butler.time_utils as tu

    conv = tu.TimeConverter()
    consts = (
        "-- GENERATED by translate/gen_timespan.py from the live TimeConverter singleton.\n"
        "namespace Gen\n"
        f"def minNsec : Int := {conv.min_nsec}\n"
        f"def maxNsec : Int := {conv.max_nsec}\n"
        f"def nsecPerDay : Int := {conv._NSEC_PER_DAY}\n"
        "end Gen\n"
    )
    open(os.path.join(outdir, "TimeConst.lean"), "w").write(consts)

    py = translate_file(
        os.path.join(PKG, "_timespan.py"), py_specs(), "Gen.TsPy",
        header="import ButlerModel.Model.Timespan\nimport ButlerModel.Gen.TimeConst",
        tr_cls=InitTr,  # InitTr only differs for the trailing super().__init__ call
    )
    open(os.path.join(outdir, "TimespanPy.lean"), "w").write(py)
    sql = translate_file(
        os.path.join(PKG, "timespan_database_representation.py"), sql_specs(), "Gen.TsSql",
        header="import ButlerModel.Model.Sql3",
    )
    open(os.path.join(outdir, "TimespanSql.lean"), "w").write(sql)
    return {"min_nsec": conv.min_nsec, "max_nsec": conv.max_nsec, "nsec_per_day": conv._NSEC_PER_DAY}


if __name__ == "__main__":
    out = sys.argv[1] if len(sys.argv) > 1 else "/verif/lean/ButlerModel/ButlerModel/Gen"
    print(generate(out))
