"""Generate Gen/TogglePy.lean: `_CacheToggle.enable` of `registry/_caching_context.py` translated from the working tree.

`enable` is a generator-based context manager.  Its body is cut where Python's semantics cut it:

* `beforeTry`   — the statements before the `try`;
* `tryBody`     — the statements of the `try` body up to the `yield` (entering the context is `tryBody ∘ beforeTry`);
* `afterYield`  — the statements of the `try` body after the `yield` (run only when the `with` block ends normally);
* `finallyBlock`— the `finally` block (run on every exit);
* `afterTry`    — the statements after the `try` statement (run only when no exception is passing through).

The state is `St = {depth : Int, on : Bool}`: `self._depth` and whether `self.cache` is set (`self.cache = <anything but None>`
sets it, `self.cache = None` clears it).  Statement forms understood: `self._depth += k` / `-= k`, `self._depth = k`,
`self.cache = …`, `if self._depth <op> k: … [else: …]`, `pass`, the docstring.  Anything else raises `Untranslatable`.
"""
from __future__ import annotations

import ast
import os
import sys

sys.path.insert(0, os.path.dirname(__file__))
from py2lean import Untranslatable  # noqa: E402

REPO = os.environ.get("VERIF_REPO", "/repo")
PKG = os.path.join(REPO, "python/lsst/daf/butler")

OPS = {ast.Eq: "==", ast.NotEq: "!=", ast.Lt: "<", ast.LtE: "≤", ast.Gt: ">", ast.GtE: "≥"}


def is_self_attr(node, name):
    return isinstance(node, ast.Attribute) and isinstance(node.value, ast.Name) and node.value.id == "self" and node.attr == name


def const_int(node):
    if isinstance(node, ast.Constant) and isinstance(node.value, int) and not isinstance(node.value, bool):
        return node.value
    if isinstance(node, ast.UnaryOp) and isinstance(node.op, ast.USub):
        return -const_int(node.operand)
    raise Untranslatable(f"integer constant expected: {ast.dump(node)}")


def cond(node):
    if isinstance(node, ast.Compare) and len(node.ops) == 1 and is_self_attr(node.left, "_depth") and type(node.ops[0]) in OPS:
        k = const_int(node.comparators[0])
        op = OPS[type(node.ops[0])]
        return f"decide (s.depth {op} {k})" if op in ("<", "≤", ">", "≥") else f"(s.depth {op} {k})"
    if isinstance(node, ast.UnaryOp) and isinstance(node.op, ast.Not):
        return f"(!{cond(node.operand)})"
    if isinstance(node, ast.Compare) and len(node.ops) == 1 and is_self_attr(node.left, "cache") and isinstance(node.comparators[0], ast.Constant) \
            and node.comparators[0].value is None and isinstance(node.ops[0], (ast.Is, ast.IsNot)):
        return "(!s.on)" if isinstance(node.ops[0], ast.Is) else "s.on"
    raise Untranslatable(f"condition: {ast.unparse(node)}")


def block(stmts, ind):
    """Lean term of type St, a chain of `let s : St := …` ending in `s`."""
    pad = " " * ind
    out = []
    for st in stmts:
        if isinstance(st, ast.Pass) or (isinstance(st, ast.Expr) and isinstance(st.value, ast.Constant)):
            continue
        if isinstance(st, ast.AugAssign) and is_self_attr(st.target, "_depth") and isinstance(st.op, (ast.Add, ast.Sub)):
            k = const_int(st.value)
            out.append(f"{pad}let s : St := {{ s with depth := s.depth {'+' if isinstance(st.op, ast.Add) else '-'} {k} }}")
        elif isinstance(st, ast.Assign) and len(st.targets) == 1 and is_self_attr(st.targets[0], "_depth"):
            out.append(f"{pad}let s : St := {{ s with depth := {const_int(st.value)} }}")
        elif isinstance(st, ast.Assign) and len(st.targets) == 1 and is_self_attr(st.targets[0], "cache"):
            off = isinstance(st.value, ast.Constant) and st.value.value is None
            out.append(f"{pad}let s : St := {{ s with on := {'false' if off else 'true'} }}")
        elif isinstance(st, ast.If):
            out.append(f"{pad}let s : St := if {cond(st.test)} then (\n{block(st.body, ind + 4)}) else (\n{block(st.orelse, ind + 4)})")
        else:
            raise Untranslatable(f"statement: {ast.unparse(st)[:80]}")
    out.append(f"{pad}s")
    return "\n".join(out)


def has_yield(st):
    return any(isinstance(n, (ast.Yield, ast.YieldFrom)) for n in ast.walk(st))


def generate(outdir: str) -> dict:
    src = open(os.path.join(PKG, "registry/_caching_context.py")).read()
    tree = ast.parse(src)
    cls = next((n for n in tree.body if isinstance(n, ast.ClassDef) and n.name == "_CacheToggle"), None)
    fn = next((n for n in (cls.body if cls else []) if isinstance(n, ast.FunctionDef) and n.name == "enable"), None)
    if fn is None:
        raise Untranslatable("_CacheToggle.enable not found")
    if not any(ast.unparse(d) == "contextmanager" for d in fn.decorator_list):
        raise Untranslatable("_CacheToggle.enable is not a @contextmanager")
    body = list(fn.body)
    tries = [i for i, st in enumerate(body) if isinstance(st, ast.Try)]
    yields_outside = [st for st in body if not isinstance(st, ast.Try) and has_yield(st)]
    if len(tries) == 1 and not yields_outside:
        t = body[tries[0]]
        if t.handlers or t.orelse:
            raise Untranslatable("try statement with except / else clauses")
        ys = [i for i, st in enumerate(t.body) if has_yield(st)]
        if len(ys) != 1 or not (isinstance(t.body[ys[0]], ast.Expr) and isinstance(t.body[ys[0]].value, ast.Yield) and t.body[ys[0]].value.value is None):
            raise Untranslatable("exactly one bare `yield` expected in the try body")
        parts = {"beforeTry": body[: tries[0]], "tryBody": t.body[: ys[0]], "afterYield": t.body[ys[0] + 1:], "finallyBlock": t.finalbody,
                 "afterTry": body[tries[0] + 1:]}
    elif not tries and len(yields_outside) == 1:
        # no try at all: nothing runs when an exception passes through
        i = body.index(yields_outside[0])
        parts = {"beforeTry": body[:i], "tryBody": [], "afterYield": [], "finallyBlock": [], "afterTry": body[i + 1:]}
    else:
        raise Untranslatable("shape of enable(): one try/finally around one yield expected")
    # the initial state, from __init__
    init = next((n for n in cls.body if isinstance(n, ast.FunctionDef) and n.name == "__init__"), None)
    d0, on0 = None, None
    for st in (init.body if init else []):
        tgt = st.target if isinstance(st, ast.AnnAssign) else (st.targets[0] if isinstance(st, ast.Assign) and len(st.targets) == 1 else None)
        if tgt is not None and is_self_attr(tgt, "_depth"):
            d0 = const_int(st.value)
        if tgt is not None and is_self_attr(tgt, "cache"):
            on0 = not (isinstance(st.value, ast.Constant) and st.value.value is None)
    if d0 is None or on0 is None:
        raise Untranslatable("__init__ does not set _depth and cache")
    lines = ["/-! GENERATED by translate/gen_toggle.py from registry/_caching_context.py (`_CacheToggle`) — do not edit. -/", "namespace Gen.TogglePy", "",
             "structure St where", "  depth : Int", "  on : Bool", "  deriving DecidableEq, Repr", "",
             f"def init : St := {{ depth := {d0}, on := {'true' if on0 else 'false'} }}", ""]
    for name, stmts in parts.items():
        lines += [f"def {name} (s : St) : St :=", block(stmts, 2), ""]
    lines += ["end Gen.TogglePy", ""]
    open(os.path.join(outdir, "TogglePy.lean"), "w").write("\n".join(lines))
    return {}


if __name__ == "__main__":
    out = sys.argv[1] if len(sys.argv) > 1 else "/verif/lean/ButlerModel/ButlerModel/Gen"
    print(generate(out))
