r"""Generate Gen/ConfigPy.lean: the string branch of `Config._splitIntoKeys` (`_config.py`) translated from the working tree.

Strings are `ConfigKeys.Str` (= `List Char`).  Named abstractions (exact source text → Lean):
`key[0]` is `ConfigKeys.head key` (evaluating it on the empty string raises `IndexError`: a raising test), `key[1:]` is `key.tail`,
the f-strings `f"\\{d}"` / `rf"\{escaped}"` are the character lists they build, `x in key` for a string `x` is
`ConfigKeys.isInfixB x key`, `key.replace(escaped, temp)` is the generic left-to-right replacement `ConfigKeys.replaceSub`,
`key.split(d)` is `ConfigKeys.splitOn`, `h.replace(temp, d)` with the one-character `temp` is a map over the characters;
`temp` (None or "\r") is an `Option Char`, its truth value `isSome`.  Only the `isinstance(key, str)` branch is translated.
"""
from __future__ import annotations

import os
import sys

sys.path.insert(0, os.path.dirname(__file__))
from py2lean import Spec, translate_file  # noqa: E402

REPO = os.environ.get("VERIF_REPO", "/repo")
PKG = os.path.join(REPO, "python/lsst/daf/butler")


def generate(outdir: str) -> dict:
    spec = Spec(
        "Config._splitIntoKeys", "splitIntoKeys", [("key", "ConfigKeys.Str")], "Except String (List ConfigKeys.Str)", kind="except",
        variants={"isinstance(key, str)": True},
        raising_tests={"not key[0].isalnum()": ("key.isEmpty", "IndexError")},
        subst={
            "not key[0].isalnum()": "(!(ConfigKeys.isAlnum (ConfigKeys.head key)))",
            "key[0]": "(ConfigKeys.head key)",
            "key[1:]": "key.tail",
            "f'\\\\{d}'": "['\\\\', d]",
            "f'\\\\{escaped}'": "('\\\\' :: escaped)",
            "escaped in key": "(ConfigKeys.isInfixB escaped key)",
            "doubled in key": "(ConfigKeys.isInfixB doubled key)",
            "None": "(none : Option Char)",
            "'\\r'": "(some '\\r')",
            "temp in key or d == temp": "(key.contains '\\r' || d == '\\r')",
            "key.replace(escaped, temp)": "(ConfigKeys.replaceSub escaped ['\\r'] key)",
            "key.split(d)": "(ConfigKeys.splitOn d key)",
            "temp": "temp.isSome",
            "[h.replace(temp, d) for h in hierarchy]": "(hierarchy.map (ConfigKeys.replaceChar '\\r' d))",
            "list(hierarchy)": "hierarchy",
        },
    )
    txt = translate_file(os.path.join(PKG, "_config.py"), [spec], "Gen.ConfigPy", header="import ButlerModel.Model.ConfigKeys")
    open(os.path.join(outdir, "ConfigPy.lean"), "w").write(txt)
    return {}


if __name__ == "__main__":
    out = sys.argv[1] if len(sys.argv) > 1 else "/verif/lean/ButlerModel/ButlerModel/Gen"
    print(generate(out))
