"""Generate Gen/ChainPy.lean: the chain-edit arithmetic of `registry/collections/_base.py` translated from the working tree —
`_add_to_collection_chain` (remove the new children, *then* ask where to insert, then insert), `_find_prepend_position`,
`_find_extend_position`, and the `enumerate(child_keys, starting_position)` of `_insert_collection_chain_rows`.

The rows of one parent are `Chain.Rows`; `_remove_collection_chain_rows` and the `MIN(position)` / `MAX(position)` queries
(with their `None -> 0` default) are the hand-modelled `Chain.removeRows`, `Chain.minPos`, `Chain.maxPos`; `c.child_keys` is the
list of child keys `kids`; the test hook `_block_for_concurrency_test` is skipped.
"""
from __future__ import annotations

import ast
import os
import sys

sys.path.insert(0, os.path.dirname(__file__))
from py2lean import Spec, StateTr, Tr, translate_file  # noqa: E402

REPO = os.environ.get("VERIF_REPO", "/repo")
PKG = os.path.join(REPO, "python/lsst/daf/butler")


def generate(outdir: str) -> dict:
    R = "Chain.Rows"
    common_subst = {
        "self._find_position_in_collection_chain(c.parent_key, 'begin')": "(Chain.minPos r)",
        "self._find_position_in_collection_chain(c.parent_key, 'end')": "(Chain.maxPos r)",
        "len(c.child_keys)": "(kids.length : Int)",
    }
    specs = [
        Spec("DefaultCollectionManager._find_prepend_position", "prependPosition", [("r", R), ("kids", "List Nat")], "Int", subst=dict(common_subst)),
        Spec("DefaultCollectionManager._find_extend_position", "extendPosition", [("r", R), ("kids", "List Nat")], "Int", subst=dict(common_subst)),
        Spec("DefaultCollectionManager._insert_collection_chain_rows", "insertRows", [("starting_position", "Int"), ("child_keys", "List Nat")], R,
             subst={"[{'parent': parent_key, 'child': child, 'position': position} for position, child in enumerate(child_keys, starting_position)]":
                    "(Chain.enumFrom starting_position child_keys)",
                    "self._db.insert(self._tables.collection_chain, *rows)": "rows"},
             stmt_rewrites={"self._db.insert(self._tables.collection_chain, *rows)": ("result", "rows")}),
    ]
    txt = translate_file(os.path.join(PKG, "registry/collections/_base.py"), specs[:2], "Gen.ChainPy", header="import ButlerModel.Model.Chain")
    add = Spec(
        "DefaultCollectionManager._add_to_collection_chain", "addToChain",
        [("position_func", f"{R} → List Nat → Int"), ("kids", "List Nat"), ("r", R), ("ins", R)], f"{R} × {R}",
        subst={"position_func(c)": "(position_func r kids)"},
        stmt_rewrites={
            "self._remove_collection_chain_rows(c.parent_key, c.child_keys)": ("r", "(Chain.removeRows r kids)"),
            "self._block_for_concurrency_test()": ("r", "r"),
            "self._insert_collection_chain_rows(c.parent_key, starting_position, c.child_keys)": ("ins", "(Chain.enumFrom starting_position kids)"),
        },
    )
    txt2 = translate_file(os.path.join(PKG, "registry/collections/_base.py"), [add], "Gen.ChainPy",
                          tr_cls=lambda sp: StateTr(sp, state=("r", "ins"), effects={}))
    # one file: the second translation without its header lines
    body2 = txt2.split("namespace Gen.ChainPy", 1)[1]
    txt = txt.replace("end Gen.ChainPy\n", "") + body2
    open(os.path.join(outdir, "ChainPy.lean"), "w").write(txt)
    return {}


if __name__ == "__main__":
    out = sys.argv[1] if len(sys.argv) > 1 else "/verif/lean/ButlerModel/ButlerModel/Gen"
    print(generate(out))
