#!/usr/bin/env python3
"""Regenerate MANIFEST.json from the table below (keeps it valid at all times)."""
import json, os

HERE = os.path.dirname(os.path.abspath(__file__))
BASE = "cd /repo && /venv/bin/python -m pytest -ra -q -p no:cacheprovider --timeout=900 --continue-on-collection-errors"

CHECKS = {
    "C11": dict(
        technique="Lean 4 proof over a model translated from source (py2lean) + exhaustive grid correspondence with Python and SQLite",
        text="Set-semantics theorems (isEmpty/overlaps/contains/</>/intersection/difference/equality, SQL three-valued agreement, constructor well-formedness) are proved in Lean 4 for all integer operands about definitions regenerated from _timespan.py and timespan_database_representation.py on every run; the translation is validated exhaustively on an endpoint grid against the running Python and SQLite. The astropy<->nanosecond float conversion is validated by boundary-dense sampling only (partial).",
        note="Trusted: Lean kernel (axioms propext/Classical.choice/Quot.sound), py2lean for the accepted subset (validated each run), SQLite's evaluation of the rendered expressions, astropy two-part JD arithmetic (sampled, not proved).",
        design="DESIGN.md §5 C11",
    ),
    "C15": dict(
        technique="Lean 4 proof (induction; Kleene-logic distributivity) over hand models of the CNF predicate algebra and the legacy normaliser + exhaustive structural/truth-table correspondence",
        text="eval_logicalAnd/Or/Not, eval_implOr, eval_fromBool (new system, n-ary, all predicates, all K3 assignments) and normalize_preserves / flatten_preserves / fromTree_preserves (legacy normaliser, both normal forms, every fuel) are proved in Lean 4. The hand models are tied to the code by comparing, for every formula of an exhaustive small enumeration plus seeded random larger ones, the exact structure of the result (operands, wrapper string, node lists) and its full truth table with the real classes.",
        note="Trusted: Lean kernel (standard axioms); the correspondence harness (structure + truth tables on enumerated formulas) is the only tie of the hand models to the code; legacy normalize is modelled with a fuel argument (preservation proved for every fuel; termination not proved).",
        design="DESIGN.md §5 C15",
    ),
    "C12": dict(
        technique="Lean 4 proof (order theory on every well-formed universe; shipped universes instantiated by kernel evaluation of extracted tables) + exhaustive 2^13 correspondence",
        text="Closure (extensive, closed, least, idempotent, monotone, spelling-irrelevant, independent of set.pop order), required/implied partition and characterisation, closure(required)=group, topological names, lookup_order respecting required predecessors, union=lub and intersection=glb are proved in Lean 4 for every universe satisfying a decidable well-formedness check; every shipped universe (extracted from the live objects each run) is proved well-formed by decide +kernel. The hand model is compared with DimensionGroup exhaustively over all 8192 non-skypix subsets of the default universe, pairs of groups, skypix samples and older universes.",
        note="Trusted: Lean kernel (standard axioms); the fact extractor for universes; correspondence harness. lookup_order being a permutation of elements (termination of its while loop) is validated exhaustively, not proved.",
        design="DESIGN.md §5 C12",
    ),
    "C04": dict(
        technique="Lean 4 proof (invariant NoOverlap + exact pointwise count equation for decertify) over a model built on the source-translated Timespan operations + history correspondence on a real SQLite registry",
        text="certify_preserves_noOverlap (any batch), certify_refused_iff, decertify_exact (at every instant: nothing valid inside the decertified span for the selected data IDs, exactly the previous rows elsewhere), decertify_preserves_noOverlap, lookup_unique_or_ambiguous are proved in Lean 4 for all states, batches and timespans, on top of the Timespan operations regenerated from source. The certify/decertify table model is tied to the code by seeded histories on a real registry comparing the whole association table and lookups after every operation, with an independent pointwise interval-map oracle.",
        note="Trusted: Lean kernel; py2lean for Timespan; SQLite executing the SELECT/DELETE/INSERT of certify/decertify atomically; PostgreSQL exclusion-constraint branch not executable here.",
        design="DESIGN.md §5 C04",
    ),
    "C03": dict(
        technique="Lean 4 proof (list lemmas on first-occurrence de-duplication and findSome?, rank-based acyclicity, position arithmetic) + history correspondence incl. the SQL position column",
        text="findFirst_eq (dedup never changes a first match), chain_equiv_children, no_match_irrelevant, prune_sound, minRank_eq_first (rank-based find-first = first match), the four edit theorems (child order and strict position order from min-len / max+1 arithmetic for all integer positions), cycle_refused and acyclic_preserved (an accepted edit keeps a strictly decreasing rank) are proved in Lean 4 for all definitions, paths and contents. The hand model is tied to the code by histories on a real registry comparing collection_chain rows with positions, getCollectionChain, flattening and find-first through five query interfaces (with and without caching context), with a model-free DFS oracle.",
        note="Trusted: Lean kernel; correspondence harness; SQLite PK enforcement; SQL window-function / legacy relation find-first are tied by correspondence (their rank semantics is the minRank theorem).",
        design="DESIGN.md §5 C03",
    ),
    "C17": dict(
        technique="Lean 4 proof (sorted-permutation lemmas, registry size invariant, bound theorems for all four expiry modes) + two-client operation-sequence correspondence under a fake clock; twin cached/uncached client oracle for registry caches",
        text="sortCache is a sorted permutation; CacheRegistry set/pop keep size = sum of entry sizes with distinct keys; after _expire_cache: files <= threshold, distinct datasets <= threshold, tracked size <= threshold or cache empty, no entry older than the threshold for every clock value; move_to_cache leaves at most threshold+1 files — all proved in Lean 4 for every registry content. The hand model is tied to DatastoreCacheManager by seeded sequences on two real managers sharing a directory under injected clock/ctimes (registry keys, tracked size, directory listing after every op). Registry caches: a client inside caching_context() is compared after every write with an uncached client on the same repository.",
        note="Trusted: Lean kernel; correspondence harness with patched os.stat/datetime inside cache_manager; registry-cache transparency is decided by the twin-client oracle on sampled histories (no Lean model of the registry caches yet); syscall-level races between processes are not exhibited.",
        design="DESIGN.md §5 C17",
    ),
    "C14": dict(
        technique="Lean 4: kernel-checked grammar facts extracted from the live PLY parser + exhaustive keyword-case theorem over the lexer model; LR model over the extracted LALR tables tied by token/tree/error correspondence; model-free oracles for precedence, insensitivity and round trip",
        text="Proved in Lean 4: the productions, precedence table, ordered lexer rules (master regex), reserved words and ignored characters of the running parser equal the expected ones (facts regenerated from the live PLY objects every run); every one of the 280 case spellings of the reserved words lexes to the keyword; leading blanks/tabs are insignificant; documented range-literal values. The lexer model and the LR driver over the extracted tables are compared with PLY on generated, variant, mutated and garbage strings (tokens, trees, printed forms, error classes). Documented precedence/associativity, keyword-case/whitespace/redundant-parenthesis insensitivity, print-reparse round trip, literal values and the user-facing error class are decided on the implementation by model-free oracles.",
        note="Partial: parse_print (round trip) and parse_range (well-formed trees) are NOT proved as theorems (an LR-correctness proof is out of reach here); they are decided by the oracles on generated inputs. Trusted: Lean kernel, fact extractor, harness, PLY's table construction is not trusted (tables are extracted and executed by the model), astropy for time values.",
        design="DESIGN.md §5 C14",
    ),
    "C16": dict(
        technique="Lean 4 proof (list induction: paging with a decrementing limit = filter-then-take for every page size; sorted-permutation lemmas) + page-by-page correspondence with the real Postprocessing.apply + sorted()/slice oracle on real queries with forced page sizes",
        text="applyPage_spec, iterate_spec and paging_concat (iterating pages of any size k>=1 through apply with its mutable limit yields exactly the post-filtered rows cut at the limit, incl. limit 0 and limits hit mid-page or at a boundary), limit_prefix, count_eq_length, any_iff_nonempty, sortBy_perm/sortBy_sorted are proved in Lean 4 for all row lists and predicates. The model of apply is compared page by page (yielded rows and remaining limit) with the real Postprocessing.apply on synthetic region rows; real queries (spatial join with post-filtering and plain joins) are run with raw page sizes 1-7, order_by lists incl. NULL metadata and limits around boundaries, and compared with Python sorted()/slicing, count() and any().",
        note="Trusted: Lean kernel; harness; SQLite ORDER BY/LIMIT for the branch without post-processing (checked by the oracle only); sphgeom overlap for the boxes used.",
        design="DESIGN.md §5 C16",
    ),
    "C18": dict(
        technique="Lean 4 proof (string split/join lemmas, mutual induction over dict/list trees) for the configuration-key core + split/join correspondence with Config; model-free round-trip oracle for the value objects",
        text="split_join_partial (every name names() builds splits back into its key tuple when no key ends in a backslash; the full statement is refuted by a kernel-checked witness), paths_find (every key tuple reported for a dict/list tree with distinct keys retrieves a value, any depth), dstype_name_roundtrip are proved in Lean 4; the Timespan and dimension-group cores are theorems of C11/C12. Config._splitIntoKeys / names() are compared with the model on generated awkward keys; dataset types, refs, data IDs (required/full/expanded), dimension records, groups and timespans are round-tripped through simple/JSON/pickle/YAML forms inside and outside a PersistenceContext with equality, hash and expansion-state checks.",
        note="Partial: pydantic/json/pickle/PyYAML are trusted carriers validated by the round-trip oracle, not modelled; the nested record forms are decided by sampling. Four documented upstream limitations of the string key syntax are listed as known findings (C18-a..d).",
        design="DESIGN.md §5 C18",
    ),
    "C13": dict(
        technique="Lean 4 proof (lookup-only dependence of standardize, setdefault-merge invariants of expandDataId by induction over the lookup order) + correspondence of standardize/expandDataId on a populated registry + brute-force consistency oracle",
        text="standardize_lookup_only (entry order, duplicates and the mapping/kwargs split are irrelevant), standardize_extra_keys_irrelevant, defaults_only_fill, eqv laws, merge_keeps/merge_sound/merge_rejects, expandStep_sound, expand_keeps, expand_records (every record found is reflected exactly in the result), expandStep_rejects (a contradiction with a fetched record is always InconsistentDataIdError) and expandStep_missing are proved in Lean 4 for every universe, record store and input; lookup_order respecting required predecessors comes from C12. The model is compared with DataCoordinate.standardize and Registry.expandDataId on generated mappings/kwargs/defaults (extra, missing, overriding, inconsistent keys, numpy integers) over sampled groups, with a brute-force oracle over the stored records.",
        note="Trusted: Lean kernel; universe fact extractor; harness; SQLite returning stored records. expand_complete (a consistent input is never refused) is decided by the oracle, not proved.",
        design="DESIGN.md §5 C13",
    ),
    "C02": dict(
        technique="Lean 4 proof (table invariants preserved by every operation, by induction over histories; identity stability; refusals change nothing) + history correspondence on a real SQLite registry through both query systems + independent dict oracle",
        text="inv_step / inv_history (UNIQUE (collection, type, data ID), unique ids, rows describe existing datasets, every dataset is a member of its RUN, which is of type RUN — preserved by every accepted or refused operation with arbitrary arguments, hence along every history), unique_type_dataid, one_run_forever (a dataset id never changes type / data ID / run), refusal_changes_nothing, tagged_only_by_associate are proved in Lean 4. The table model is tied to the code by seeded histories with valid and invalid arguments; after every step the membership of every collection is read through Registry.queryDatasets and Butler.query_datasets and compared with the model and with an independent dict model of the documented behaviour.",
        note="Trusted: Lean kernel; harness; SQLite enforcing the declared UNIQUE/PK/FK constraints; PostgreSQL paths not executable here. The model follows the implementation where an existing collection name is returned whatever type is asked for (registerCollection returns False).",
        design="DESIGN.md §5 C02",
    ),
    "C01": dict(
        technique="Lean 4 proof (refinement of the records + files store to the plain map id -> content along every history with injective placement; kernel-checked collision witnesses where placement is not injective) + history correspondence with the real artifact paths and file sizes on a FileDatastore + read-back oracle on file, in-memory and chained datastores",
        text="get_refines_spec (after any history of puts and removals in which every put goes to a path no stored dataset uses, get of every id returns exactly the content stored under it, or nothing if it was removed — storing or deleting one dataset never changes another), rel_put / rel_remove / rel_history, and the refutation witnesses collision_overwrites, collision_integrity_error, collision_survives_removal and sanitize_not_injective (known finding C01-a) are proved in Lean 4. The model is driven with the artifact paths and file sizes the real FileDatastore chose; on file, in-memory and chained repositories every stored dataset is read back after every step (put under YAML / JSON / pickle formatters of generated payloads with YAML edge cases, ingest, transfer_from, associate, prune and removeRuns of other datasets) and its dataset type, data ID, run and id are re-read from the registry.",
        note="Partial: injectivity of the default template over data IDs is false (C01-a, listed as known finding with the theorem sanitize_not_injective); serialisation (PyYAML, json, pickle, astropy) is a trusted carrier validated by the round-trip oracle; InMemoryDatastore hands out the caller's own object by design, so mutation-after-put is probed on the file datastore only. Trusted: Lean kernel; harness; POSIX file semantics.",
        design="DESIGN.md §5 C01",
    ),
    "C05": dict(
        technique="Lean 4 proof (documented meaning versus compiled SQL meaning of predicates on a row under three-valued logic; correctness of the strided-range compilation for every integer member and stride; compilation preserves meaning for every well-formed predicate) + correspondence of type-directed random expressions through the three Butler query methods and the three legacy Registry methods + Python oracle of the documented meaning",
        text="inRange_correct (for every member, negative ones included, and every range with positive stride the compiled BETWEEN + truncating-remainder test equals membership in {a, a+s, ...} up to b), compile_correct and selects_exactly (for every well-formed predicate and every row the compiled value equals the documented value in all three truth values, hence exactly the true rows are returned), null_comparison_is_unknown, not_of_unknown_drops_row, null_test_is_two_valued, not_in_is_negation, and inRange_old_correct_partial / inRange_old_negative_witness (the repaired defect C05-a) are proved in Lean 4. The model is compared on every candidate row with Butler.query_data_ids / query_dimension_records / query_datasets for seeded expressions (comparisons in both orientations, + - * % and unary minus with negative intermediate values, IN / NOT IN over literals, strided ranges and bind lists, NULL tests, NOT / AND / OR) over a detector population with NULL metadata; the legacy Registry.query* methods must return the same rows whenever they accept the expression.",
        note="Partial: the expression is sent to the model as a tree, the parse step is C14's subject; time literals / timespan overlap are covered by C11 and C14; POINT / region overlap and float arithmetic are not modelled; '/' is not generated. Legacy deviations C05-b (ranges compiled in lsst.daf.relation, outside the repository) and C05-c ('= NULL' never true) are known findings. Trusted: Lean kernel; harness; SQLite integer arithmetic and BINARY collation.",
        design="DESIGN.md §5 C05",
    ),
    "C06": dict(
        technique="Lean 4 proof (natural join of tables over dimension columns equals the conjunction of per-table consistency, for any number of tables and any join order) + facts read from the live universe (the dependency-closed dimension groups, required / implied / always-join / spatial-family metadata) + correspondence of Butler.query_data_ids and Registry.queryDataIds on seeded populations entered through three insertion histories + backtracking oracle over the record dictionaries with sphgeom region relations",
        text="sat_join (a combination satisfies T1 join T2 iff it satisfies both), query_exact (it is in the result of joining all contributing tables iff it is consistent with every one of them: each dimension's record with its required and implied values, each always-joined membership table, the overlap relation between the finest elements of two spatial families), join_order_irrelevant and more_tables_fewer_rows are proved in Lean 4 for all tables. Dimension groups are enumerated from the live universe (all dependency-closed subsets of its 13 non-skypix dimensions); for seeded populations (foreign-key patterns, NULL regions, touching / nested / disjoint regions on a grid) the selected tables go to the model and the real queries run on repositories populated by bulk insert, by shuffled syncDimensionData, and by displaced regions corrected through replace and sync-update; results must equal the model's, the oracle's and each other.",
        note="Partial: the theorem is about the relational rule; that the code selects exactly these tables for each group is established by the correspondence over the enumerated groups, not by translating the query builder; geometry (sphgeom) is trusted; skypix dimensions and where-clause spatial constraints are outside this check. Trusted: Lean kernel; harness; SQLite.",
        design="DESIGN.md §5 C06",
    ),
    "C07": dict(
        technique="Lean 4 proof (transaction programs as an inductive type; run of a failed block restores files, registry and undo stack exactly, for every program, nesting depth and fuel) + correspondence of generated programs on a real Butler + fault injection at every SQL / file boundary of the additive and removal operations with a snapshot-equality oracle",
        text="rollback_exact, effect_all (every program run from any state either commits files/registry extensions that are exactly its own puts or, when it fails, restores the state it started from, with caught inner failures at any depth), failed_block_restores and txn_state_restored (the datastore transaction stack is the same after any block, failed or not) are proved in Lean 4 for every program and every fuel; old_code_leaks / new_code_restores_witness keep the repaired defect C07-a as a kernel-checked regression witness. A second model (TxnCache) covers registry rows behind read-through caches and pruneDatasets inside blocks: Cache.coherent_all (the cached view never differs from the database, for every program), Cache.failed_block_registry_restored (rows, datasets and the cached view are as before a failed block), Cache.files_filter_all / failed_block_files (a block never adds artifacts and removes only what it prunes), Cache.failed_block_files_restored_partial (exact restoration for blocks without pruneDatasets) and the refutation witness Cache.prune_in_failed_block_loses_artifact (known finding C07-c); old_code_stale_cache is the regression witness of repaired defect C07-d. The models are compared with Butler.transaction() programs (nesting <= 3, caught / uncaught failures raised as Exception, BaseException, KeyboardInterrupt, SystemExit or by a refused re-put; inserts of dimension records / dataset types / runs read back through the cached interfaces; pruneDatasets inside blocks) on a real repository; put, put-in-block, ingest(copy, move), import_, transfer_from, pruneDatasets(purge) and removeRuns are run once per SQL / filesystem boundary with a fault injected there and the registry dump, records table and recursive root listing are compared before/after.",
        note="Partial: the Lean model covers the transaction/undo-log state machine; the fault enumeration over real operations is an exhaustive-per-boundary correspondence, not a theorem about SQLite or POSIX. Trusted: Lean kernel; harness and injector; SQLite transaction/SAVEPOINT semantics. Faults that the code swallows by design (ignore_errors=True in Datastore.trash/emptyTrash), after which the removal returns normally, are outside the property's 'removal that fails' clause and are reported as observations.",
        design="DESIGN.md §5 C07",
    ),
    "C08": dict(
        technique="Lean 4 proof (crash semantics of effect sequences over committed database + open transaction + files; every effect that passes its local guard preserves consistency; a disciplined sequence is consistent after every prefix, including the middle of a write) + effect traces recorded from the real code on every run and checked against the discipline by the model + physical replay of every crash point in forked processes compared with the model state + fresh-Butler oracle",
        text="inv_apply (each of begin / commit / rollback / the eight table effects / file create, complete, rename, link, delete preserves RecsOK of the committed state and of the transaction's view under its local guard) and crash_consistent (for every disciplined effect sequence, every initial consistent state and every k, what a fresh process finds after the first k effects has a complete artifact for every dataset the datastore holds and no record naming a half-written file) are proved in Lean 4 for all sequences and states. The effect sequences of put, ingest_zip, ingest(copy/move), transfer_from, pruneDatasets(purge/unstore, also of one of two datasets sharing a file), removeRuns and emptyTrash are recorded from the running code (SQLAlchemy cursor/commit/rollback events with parameters; write/copy/rename/link/remove under lsst.resources), must satisfy the discipline, and every crash point (before each event and in the middle of each write/copy) is replayed in a forked child that dies there; the tables (read with sqlite3) and files found afterwards are compared with the model, and a fresh Butler must read every non-target, see interrupted insertions all-or-nothing, find no half-written file under a final name, and complete the removal on re-run.",
        note="Trusted: Lean kernel; the recorder (crashhooks) and the event-to-effect translation; SQLite durability of committed transactions and loss of open ones at process death; atomic os.rename/os.link. Process death is simulated by os._exit at Python-level boundaries: power loss with unsynced pages and deaths inside a single SQL statement or write syscall are not reachable. A crash between emptyTrash's two row deletions leaves a dataset_location_trash row without records, which later emptyings ignore (observation, no effect on the property).",
        design="DESIGN.md §5 C08",
    ),
    "C09": dict(
        technique="Lean 4 proof (invariants of the records / location / trash tables and the datastore root preserved by every operation, by induction over histories; safety, precision and no-leak theorems for emptyTrash with the bridge's preserved set and the fragment recount; shape theorem for normpath and containment of every accepted templated path) + history correspondence on a real Butler inside a sentinel area + hostile-name correspondence of FileTemplate.format / Location + reference-set oracle",
        text="emptyTrash_keeps_referenced (an artifact that a still-stored dataset refers to is never removed, for plain shared files, zip members and direct ingests mixed in one trash), emptyTrash_only_removes_trashed, emptyTrash_removes_unreferenced, ext_untouched, inv_store / inv_trash / inv_emptyTrash / inv_history and stored_artifacts_present (after every history every stored dataset has its owned artifacts on disk) are proved in Lean 4 for all states and histories; Path.normComps_shape (normpath yields '..'* followed by ordinary names), Path.accepted_is_contained (a path the datastore accepts has no '..', '.' or empty component, whatever the run, data-ID and dataset-type strings) and Path.refused_escapes are proved for all strings. The models are compared with a real Butler on seeded histories of put / ingest(copy, move, direct, shared) / ingest_zip / prune(unstore, purge) / Datastore.trash / emptyTrash / removeRuns with a recursive content listing of the root and of the sentinel area after every step and a get of every stored dataset, and on hostile run names and data-ID strings through put, ingest, get and prune.",
        note="Trusted: Lean kernel; harness; POSIX path resolution (a relative path without '..' components stays below the directory it is joined to; no symlinks); lsst.resources URI parsing is exercised but not modelled — names containing '%' are decided by the filesystem oracle only. Disassembled composites are not produced by any storage class usable in this sandbox; the model covers them through multiple records per dataset id.",
        design="DESIGN.md §5 C09",
    ),
    "C19": dict(
        technique="Lean 4 proof (keyed tables merged with the policy the code implements; exactness, conflict refusal and idempotence of the strictly merged parts for all tables; refutation witnesses for the two policies that deviate from the property) + correspondence of Butler.export / import_ / transfer_from into empty, compatible, pre-populated and conflicting targets, applied twice + source-versus-target oracle",
        text="strict_exact, strict_conflict_refused, strict_idempotent (dataset types, datasets by UUID, one dataset per type / data ID / run, TAGGED memberships), keep_preserves_target, keep_exact_partial (dimension records arrive only where the target has none — full statement false: keep_conflict_kept, C19-a), over_exact (chain definitions; over_conflict_redefines, C19-b), calib_exact, calib_disjoint, calib_repeat_refused, and the repository-level import_exact, import_conflict_refused, import_slot_conflict_refused, import_idempotent are proved in Lean 4 for all tables. The model is compared with real exports of random selections of seeded source repositories imported into seven kinds of target (twice each), and transfer_from in copy / hardlink / symlink / relsymlink mode; the target's observable state (ids, types, data IDs, runs, contents read back, TAGGED memberships, validity ranges, chains, dimension records) is compared with the source's for the selection and with itself before a repetition or refusal.",
        note="Partial: conflicting dimension records are kept (C19-a) and existing chains redefined (C19-b) — known findings with kernel-checked witnesses; registrations of dataset types / collections made before a refused import are outside the import's transaction and not modelled; quantum-backed source butlers are not constructible here. Trusted: Lean kernel; harness; YAML export format produced and consumed by the same code.",
        design="DESIGN.md §5 C19",
    ),
    "C20": dict(
        technique="Lean 4 proof (atomic-step interleaving model; commutation of every step that stays clear of a removal with each later step of the removal; reduction of any interleaving of a four-step removal with clear steps of any number of other clients to the uninterrupted schedule) + deterministic interleavings of two or three Butler clients on a real SQLite repository at every internal boundary of the removal, compared with the model and with all sequential orders",
        text="clear_commutes_prune2q / prune2d / prune3 (for all states and all steps that do not concern the removed dataset id or its artifact path), move_across, removal_serializable (for all prefixes, all blocks of clear steps between the removal's steps and all suffixes, the interleaved schedule ends in the same state as the schedule with the removal uninterrupted), register_get_or_create, conflicting_puts_one_wins, chain_edits_not_lost, and the refutation witnesses reuse_race_loses_artifact / reuse_before_query_is_safe / reuse_sequential_orders_keep_it (known finding C20-a) are proved in Lean 4. On a real repository client A's pruneDatasets(purge / unstore) or removeRuns is paused at each internal boundary (after the first commit, after the trash query, after the file deletions) while clients B and C put (also into the slot being removed), associate, extend a chain, register a run, or purge another dataset; outcomes and final observable state must equal those of some sequential order, each executed on a fresh copy; purge schedules are also compared with the model.",
        note="Partial: single-transaction operations are atomic steps only because SQLite holds the database lock for the whole write transaction; interleavings inside transactions (PostgreSQL row locks, Database.sync retry loops) are not executable here and not modelled. The schedule is imposed by callbacks in one process, not by threads. Two concurrent multi-step removals are covered by applying removal_serializable once per removal (each removal's later steps are clear of the other when they concern different datasets and paths). C20-a is a known finding. Trusted: Lean kernel; harness; SQLite locking.",
        design="DESIGN.md §5 C20",
    ),
    "C10": dict(
        technique="Lean 4 proof (exact state equations for purge over the registry+datastore model, corollaries of the C02 invariants) + history correspondence on a real Butler with existence probes of every dataset + set oracle",
        text="purge_exact (purge is always accepted and leaves exactly the old tables / datastore records / artifacts minus the targets), purge_members (membership of every collection = old minus targets), purge_others_untouched, purge_targets_gone, orphan_refused (the registry refuses to forget a dataset a datastore still holds, changing nothing), purge_inv, exists_flags_consistent, extDelete_flags are proved in Lean 4. The model is compared with a real Butler on seeded histories mixing puts, tagging, certification, chaining, the three prune modes, registry.removeDatasets, removeRuns and external deletion of artifacts; after every step exists(full_check) / _exists_many / stored / query membership / directory listing of every dataset ever created are compared with the model and with the harness's own sets.",
        note="Trusted: Lean kernel; harness; SQLite FK enforcement (dataset_location -> dataset); POSIX file existence. Shared artifacts (C09) and concurrency (C20) are out of this property's model.",
        design="DESIGN.md §5 C10",
    ),
}

NOT_YET = {}

def main():
    props = [json.loads(l)["id"] for l in open(os.path.join(HERE, "properties.jsonl"))]
    checks = []
    for pid in props:
        if pid in CHECKS:
            c = CHECKS[pid]
            checks.append({
                "property_id": pid,
                "quick_cmd": f"./check {pid} --tier quick",
                "thorough_cmd": f"./check {pid} --tier thorough",
                "evidence_file": f"evidence/{pid}.json",
                "replay_cmd_template": f"./check {pid} --replay {{path}}",
                "engine": "lean4-butlermodel",
                "level_claimed": {"category": "proof", "text": c["text"], "design_ref": c["design"]},
                "level_note": c["note"],
                "technique": c["technique"],
            })
    na = [{"property_id": p, "reason": NOT_YET.get(p, "check not built yet in this round (planned, see DESIGN.md §5); not claimed until its model, theorems and correspondence are committed")}
          for p in props if p not in CHECKS]
    man = {
        "version": 1,
        "setup_cmd": "./setup.sh",
        "hooks": {
            "guard": "LSST_DAF_BUTLER_VERIF",
            "enable": "export LSST_DAF_BUTLER_VERIF=1 (set by ./check); /repo is used in place (editable install), no rebuild needed",
            "baseline_off_cmd": "env -u LSST_DAF_BUTLER_VERIF " + BASE.replace("cd /repo && ", "sh -c 'cd /repo && ") + "'",
            "source_commits": [],
            "add_only": True,
        },
        "engines": [{
            "name": "lean4-butlermodel", "path": "lean/ButlerModel",
            "serves_properties": sorted(CHECKS),
            "kind_free_text": "Lean 4.33 library of executable models + property theorems; models tied to /repo by translation (translate/), extracted facts and line-protocol correspondence (checks/, Driver.lean)",
        }],
        "checks": checks,
        "not_applicable": na,
        "notes": "See DESIGN.md. Every check: regenerate Gen/*.lean from /repo -> lake build Props -> axiom audit -> correspondence/oracle search on the implementation.",
    }
    json.dump(man, open(os.path.join(HERE, "MANIFEST.json"), "w"), indent=1)

if __name__ == "__main__":
    main()
