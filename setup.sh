#!/bin/bash
# Build the framework from files on disk only (offline).
set -e
cd "$(dirname "$0")"
export LSST_DAF_BUTLER_VERIF=1 PYTHONDONTWRITEBYTECODE=1 PYTHONWARNINGS=ignore
/venv/bin/python -m vlib.regen all
cd lean/ButlerModel
lake build ButlerModel driver 2>&1 | tail -5
echo "setup ok"
