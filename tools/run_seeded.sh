#!/bin/bash
# usage: run_seeded.sh <PROP> <patch.diff> [tier]   — apply a seeded change to /repo, run the check, undo it straight afterwards.
P=$1; PATCH=$2; TIER=${3:-quick}
cd /verif
git -C /repo diff --quiet || { echo "refusing: /repo has uncommitted changes"; exit 3; }
git -C /repo apply "$PATCH" || { echo "PATCH DOES NOT APPLY: $PATCH"; exit 3; }
start=$(date +%s)
out=$(timeout 3000 ./check $P --tier $TIER 2>&1); rc=$?
end=$(date +%s)
git -C /repo checkout -q -- .
nv=$(echo "$out" | grep -c '^VIOLATION')
first=$(echo "$out" | grep -m1 '^# ' | cut -c1-220)
nf=$(echo "$out" | grep -c 'no-failing-input-found')
echo "RESULT prop=$P patch=$PATCH rc=$rc violations=$nv no_failing_input=$nf secs=$((end-start)) :: $first"
