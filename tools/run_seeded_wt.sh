#!/bin/bash
# usage: run_seeded_wt.sh <PROP> <patch.diff> [tier]
# Like run_seeded.sh, but leaves /repo alone: the patch is applied to a scratch git worktree of /repo's HEAD and the check is
# pointed at it (VERIF_REPO + PYTHONPATH).  Evidence and generated Lean files in /verif are overwritten by this run: re-run the
# check on the clean tree afterwards (the script does so for the generated files by calling the check's quick tier again is NOT
# done here; use tools/regen_clean.sh or simply run the check again).
P=$1; PATCH=$2; TIER=${3:-quick}
WT=/tmp/mut/wt_run_$$
mkdir -p /tmp/mut
git -C /repo worktree add -q --detach $WT HEAD || exit 3
cp /repo/python/lsst/daf/butler/version.py $WT/python/lsst/daf/butler/version.py 2>/dev/null
git -C $WT apply "$PATCH" || { echo "PATCH DOES NOT APPLY: $PATCH"; git -C /repo worktree remove --force $WT; exit 3; }
cd /verif
start=$(date +%s)
out=$(VERIF_REPO=$WT PYTHONPATH=$WT/python timeout 3000 ./check $P --tier $TIER 2>&1); rc=$?
end=$(date +%s)
git -C /repo worktree remove --force $WT
nv=$(echo "$out" | grep -c '^VIOLATION')
first=$(echo "$out" | grep -m1 '^# ' | cut -c1-220)
nf=$(echo "$out" | grep -c 'no-failing-input-found')
echo "RESULT prop=$P patch=$PATCH rc=$rc violations=$nv no_failing_input=$nf secs=$((end-start)) :: $first"
