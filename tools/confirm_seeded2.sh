#!/bin/bash
# usage: confirm_seeded.sh <PROP> <k>   (uses /tmp/mut/wt_<PROP> and /tmp/mut/out_<PROP>/<k>)
# Confirms in the scratch worktree: demo passes without the patch, fails with it, and the baseline suite still has 254 passes.
P=$1; K=$2; R=${ROUND:-2}
WT=/tmp/mut/wt${R}_$P; OUT=/tmp/mut/out${R}_$P/$K
git -C $WT checkout -q -- . 
export PYTHONPATH=$WT/python PYTHONWARNINGS=ignore
cd $OUT
a=$(timeout 600 /venv/bin/python demo.py >/tmp/mut/demo2_clean_${P}_$K.log 2>&1; echo $?)
git -C $WT apply $OUT/patch.diff || { echo "$P/$K: PATCH DOES NOT APPLY"; exit 1; }
b=$(timeout 600 /venv/bin/python demo.py >/tmp/mut/demo2_patched_${P}_$K.log 2>&1; echo $?)
t=$(cd $WT && timeout 1500 /venv/bin/python -m pytest -q -p no:cacheprovider --timeout=900 --continue-on-collection-errors 2>&1 | tail -1)
git -C $WT checkout -q -- .
echo "$P/$K: demo2_clean_rc=$a demo2_patched_rc=$b tests: $t"
