#!/bin/bash
# round-2 mutation prompt for property $1
P=$1; R=${ROUND:-2}
WT=/tmp/mut/wt${R}_$P; OUT=/tmp/mut/out${R}_$P
git -C /repo worktree add -q --detach $WT HEAD
cp /repo/python/lsst/daf/butler/version.py $WT/python/lsst/daf/butler/version.py 2>/dev/null
mkdir -p $OUT
/venv/bin/python - "$P" "$R" <<'PY'
import json,sys,glob
P=sys.argv[1]; R=sys.argv[2]
for l in open('/verif/properties.jsonl'):
    d=json.loads(l)
    if d['id']==P:
        prop=f"[{P}] {d['title']}\n\n{d['statement']}\n\nQuantifier: {d['quantifier']['text']}\n\nAnchors (files): {', '.join(d['anchors']['files'])}"
        avoid=[]
        for m in sorted(glob.glob(f'/verif/seeded/{P}-*/meta.json')):
            try:
                j=json.load(open(m)); avoid.append("- "+str(j.get('summary',''))[:200]+" ["+str(j.get('mechanism',''))[:160]+"]")
            except Exception: pass
        t=open('/verif/tools/mutation_prompt_template.txt').read().replace('__WT__',f'/tmp/mut/wt{R}_{P}').replace('__OUT__',f'/tmp/mut/out{R}_{P}').replace('__PROP__',prop).replace('__PID__',P)
        t+="\n\nIMPORTANT: an earlier round already produced the following mutations for this property. Yours must be DIFFERENT: use other code sites and other mechanisms (other functions, other branches, other operations of the quantifier), not variations of these:\n"+"\n".join(avoid)+"\n"
        open(f'/tmp/mut/prompt{R}_{P}.txt','w').write(t)
PY
