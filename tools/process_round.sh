#!/bin/bash
# usage: ROUND=3 tools/process_round.sh Cxx   — confirm the three sub-agent changes of that round in their scratch worktree,
# copy the confirmed ones to seeded/Cxx-r<ROUND>-k, run the property's quick check against each (scratch worktree, /repo untouched)
P=$1; R=${ROUND:-3}
cd /verif
for k in 1 2 3; do ROUND=$R tools/confirm_seeded2.sh $P $k; done > /tmp/mut/confirm${R}_$P.log 2>&1
for k in 1 2 3; do
  line=$(grep "^$P/$k:" /tmp/mut/confirm${R}_$P.log)
  case "$line" in *"demo2_clean_rc=0 demo2_patched_rc=1 tests: 7 failed, 254 passed"*) ;; *) echo "NOT CONFIRMED: $line"; continue;; esac
  d=seeded/$P-r$R-$k; mkdir -p $d
  cp /tmp/mut/out${R}_$P/$k/patch.diff /tmp/mut/out${R}_$P/$k/demo.py /tmp/mut/out${R}_$P/$k/meta.json $d/
  python3 - $d "$line" $R <<'PY'
import json,sys
d=sys.argv[1]; m=json.load(open(d+'/meta.json')); m['confirmed']=sys.argv[2]; m['round']=int(sys.argv[3])
json.dump(m,open(d+'/meta.json','w'),indent=1)
PY
  tools/run_seeded_wt.sh $P /verif/$d/patch.diff 2>&1 | tail -1 | cut -c1-400
done > /tmp/mut/run${R}_$P.log 2>&1
cat /tmp/mut/run${R}_$P.log
